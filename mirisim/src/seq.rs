//! Class c00: generated single-thread histories with injected faults, run inside Miri. The
//! baton simulator's allocator ledger judges allocator traffic from outside; here Miri judges
//! every byte the library itself touches: reads of uninitialised or freed memory, accesses
//! outside a block, misaligned references, a release with the wrong layout or of an address
//! that was never allocated, and (at process end) leaked blocks. The harness adds the value
//! oracle (every handle shows the header and elements it was built from) and a live-object
//! count for payloads with destructors.
//!
//! One seed is one history: shapes (header type x element type), slice length, constructor,
//! fault (iterator that panics at its k-th call or misreports its length, callback that panics
//! after replacing the Arc), a handful of conversions / clones / copy-on-write / unwraps, then
//! the releases in a seeded order.

use std::mem::MaybeUninit;
use std::panic::{catch_unwind, AssertUnwindSafe};
use std::sync::atomic::{AtomicIsize, Ordering};
use triomphe::{Arc, ArcUnion, HeaderSlice, HeaderWithLength, OffsetArc, ThinArc, UniqueArc};

use crate::Rng;

static LIVE: AtomicIsize = AtomicIsize::new(0);
/// class c00 arms faults (and leaks are then legal); class c01 runs the same histories fault-free
/// under Miri's leak checker
static FAULTS: std::sync::atomic::AtomicBool = std::sync::atomic::AtomicBool::new(true);

fn violation(class: &str, detail: String) -> ! {
    println!("VIOLATION-RECORD\t{}\t{}", class, detail);
    std::process::exit(3);
}

pub trait Sh: Clone + 'static {
    const NAME: &'static str;
    fn mk(tag: u64) -> Self;
    fn val(&self) -> u64;
    fn norm(tag: u64) -> u64;
    fn set(&mut self, tag: u64);
    fn fat_from_slice<H>(h: H, _s: &[Self]) -> Result<Arc<HeaderSlice<H, [Self]>>, H> {
        Err(h)
    }
    fn thin_from_slice<H>(h: H, _s: &[Self]) -> Result<ThinArc<H, Self>, H> {
        Err(h)
    }
    fn sl_from_slice(_s: &[Self]) -> Option<Arc<[Self]>> {
        None
    }
}

macro_rules! copy_shape {
    ($t:ty, $name:expr, $mk:expr, $val:expr, $norm:expr) => {
        impl Sh for $t {
            const NAME: &'static str = $name;
            fn mk(tag: u64) -> Self {
                ($mk)(tag)
            }
            fn val(&self) -> u64 {
                ($val)(self)
            }
            fn norm(tag: u64) -> u64 {
                ($norm)(tag)
            }
            fn set(&mut self, tag: u64) {
                *self = Self::mk(tag);
            }
            fn fat_from_slice<H>(h: H, s: &[Self]) -> Result<Arc<HeaderSlice<H, [Self]>>, H> {
                Ok(Arc::from_header_and_slice(h, s))
            }
            fn thin_from_slice<H>(h: H, s: &[Self]) -> Result<ThinArc<H, Self>, H> {
                Ok(ThinArc::from_header_and_slice(h, s))
            }
            fn sl_from_slice(s: &[Self]) -> Option<Arc<[Self]>> {
                Some(Arc::from(s))
            }
        }
    };
}
copy_shape!(u8, "u8", |t: u64| t as u8, |s: &u8| *s as u64, |t: u64| t & 0xff);
copy_shape!(u64, "u64", |t: u64| t, |s: &u64| *s, |t: u64| t);
#[derive(Clone, Copy)]
pub struct T3([u8; 3]);
copy_shape!(T3, "T3(size 3 align 1)", |t: u64| T3([t as u8, (t >> 8) as u8, 0x33]), |s: &T3| s.0[0] as u64 | (s.0[1] as u64) << 8, |t: u64| t & 0xffff);
#[derive(Clone, Copy)]
pub struct Unit;
copy_shape!(Unit, "Unit(ZST)", |_t: u64| Unit, |_s: &Unit| 0, |_t: u64| 0);

/// 24 bytes, align 8, destructor.
pub struct Pay {
    vals: [u64; 3],
}
impl Sh for Pay {
    const NAME: &'static str = "Pay(24,drop)";
    fn mk(tag: u64) -> Self {
        LIVE.fetch_add(1, Ordering::Relaxed);
        Pay { vals: [tag, !tag, tag ^ 0x5555] }
    }
    fn val(&self) -> u64 {
        if self.vals[1] != !self.vals[0] || self.vals[2] != self.vals[0] ^ 0x5555 {
            violation("value-mismatch", format!("a Pay payload is torn: {:x?}", self.vals));
        }
        self.vals[0]
    }
    fn norm(tag: u64) -> u64 {
        tag
    }
    fn set(&mut self, tag: u64) {
        self.vals = [tag, !tag, tag ^ 0x5555];
    }
}
impl Clone for Pay {
    fn clone(&self) -> Pay {
        LIVE.fetch_add(1, Ordering::Relaxed);
        Pay { vals: self.vals }
    }
}
impl Drop for Pay {
    fn drop(&mut self) {
        if self.vals[1] != !self.vals[0] {
            violation("drop-garbage", format!("a Pay destructor ran on bytes that are not a live Pay: {:x?}", self.vals));
        }
        self.vals[1] = 0;
        LIVE.fetch_sub(1, Ordering::Relaxed);
    }
}

/// 16 bytes, align 16, destructor.
#[repr(align(16))]
pub struct Big16 {
    v: u64,
    chk: u32,
}
impl Sh for Big16 {
    const NAME: &'static str = "Big16(align 16,drop)";
    fn mk(tag: u64) -> Self {
        LIVE.fetch_add(1, Ordering::Relaxed);
        Big16 { v: tag, chk: !(tag as u32) }
    }
    fn val(&self) -> u64 {
        if self.chk != !(self.v as u32) {
            violation("value-mismatch", format!("a Big16 payload is torn: {:x} {:x}", self.v, self.chk));
        }
        if (self as *const Big16 as usize) % 16 != 0 {
            violation("addr:misaligned", format!("a Big16 payload lives at {:p}", self));
        }
        self.v
    }
    fn norm(tag: u64) -> u64 {
        tag
    }
    fn set(&mut self, tag: u64) {
        self.v = tag;
        self.chk = !(tag as u32);
    }
}
impl Clone for Big16 {
    fn clone(&self) -> Big16 {
        LIVE.fetch_add(1, Ordering::Relaxed);
        Big16 { v: self.v, chk: self.chk }
    }
}
impl Drop for Big16 {
    fn drop(&mut self) {
        if self.chk != !(self.v as u32) {
            violation("drop-garbage", format!("a Big16 destructor ran on bytes that are not a live Big16: {:x} {:x}", self.v, self.chk));
        }
        self.chk = 0x0bad_0bad ^ !(self.v as u32);
        LIVE.fetch_sub(1, Ordering::Relaxed);
    }
}

/// 64 bytes, align 64, destructor.
#[repr(align(64))]
pub struct Big64 {
    v: u64,
    chk: u32,
}
impl Sh for Big64 {
    const NAME: &'static str = "Big64(align 64,drop)";
    fn mk(tag: u64) -> Self {
        LIVE.fetch_add(1, Ordering::Relaxed);
        Big64 { v: tag, chk: !(tag as u32) }
    }
    fn val(&self) -> u64 {
        if self.chk != !(self.v as u32) {
            violation("value-mismatch", format!("a Big64 payload is torn: {:x} {:x}", self.v, self.chk));
        }
        if (self as *const Big64 as usize) % 64 != 0 {
            violation("addr:misaligned", format!("a Big64 payload lives at {:p}", self));
        }
        self.v
    }
    fn norm(tag: u64) -> u64 {
        tag
    }
    fn set(&mut self, tag: u64) {
        self.v = tag;
        self.chk = !(tag as u32);
    }
}
impl Clone for Big64 {
    fn clone(&self) -> Big64 {
        LIVE.fetch_add(1, Ordering::Relaxed);
        Big64 { v: self.v, chk: self.chk }
    }
}
impl Drop for Big64 {
    fn drop(&mut self) {
        if self.chk != !(self.v as u32) {
            violation("drop-garbage", format!("a Big64 destructor ran on bytes that are not a live Big64: {:x} {:x}", self.v, self.chk));
        }
        self.chk = 0x0bad_0bad ^ !(self.v as u32);
        LIVE.fetch_sub(1, Ordering::Relaxed);
    }
}

/// Zero-sized, destructor (counted).
pub struct Zd;
impl Sh for Zd {
    const NAME: &'static str = "Zd(ZST,drop)";
    fn mk(_tag: u64) -> Self {
        LIVE.fetch_add(1, Ordering::Relaxed);
        Zd
    }
    fn val(&self) -> u64 {
        0
    }
    fn norm(_tag: u64) -> u64 {
        0
    }
    fn set(&mut self, _tag: u64) {}
}
impl Clone for Zd {
    fn clone(&self) -> Zd {
        LIVE.fetch_add(1, Ordering::Relaxed);
        Zd
    }
}
impl Drop for Zd {
    fn drop(&mut self) {
        LIVE.fetch_sub(1, Ordering::Relaxed);
    }
}

pub trait Probe {
    fn probe(&self) -> u64;
}
impl<T: Sh> Probe for T {
    fn probe(&self) -> u64 {
        self.val()
    }
}

// ------------------------------------------------------------------------------------------
// fault-injecting iterator

struct FIter<E: Sh> {
    tags: Vec<u64>,
    pos: usize,
    /// panic when `next` is called for the k-th time (1-based)
    panic_at: Option<usize>,
    /// what `len()` / `size_hint` claim, relative to the truth
    claim: isize,
    /// what the second and later `len()` calls claim instead (an iterator whose answers change)
    claim_later: Option<isize>,
    len_calls: std::cell::Cell<u32>,
    exact_hint: bool,
    _e: std::marker::PhantomData<E>,
}
impl<E: Sh> Iterator for FIter<E> {
    type Item = E;
    fn next(&mut self) -> Option<E> {
        if Some(self.pos + 1) == self.panic_at {
            panic!("injected: iterator next #{}", self.pos + 1);
        }
        if self.pos < self.tags.len() {
            self.pos += 1;
            Some(E::mk(self.tags[self.pos - 1]))
        } else {
            None
        }
    }
    fn size_hint(&self) -> (usize, Option<usize>) {
        let rest = (self.tags.len() - self.pos) as isize;
        let c = (rest + self.claim).max(0) as usize;
        if self.exact_hint {
            (c, Some(c))
        } else {
            (c / 2, None)
        }
    }
}
impl<E: Sh> ExactSizeIterator for FIter<E> {
    fn len(&self) -> usize {
        let n = self.len_calls.get();
        self.len_calls.set(n + 1);
        let rest = (self.tags.len() - self.pos) as isize;
        let claim = match (n, self.claim_later) {
            (0, _) | (_, None) => self.claim,
            (_, Some(c)) => c,
        };
        (rest + claim).max(0) as usize
    }
}

fn fiter<E: Sh>(tags: &[u64], panic_at: Option<usize>, claim: isize, exact_hint: bool) -> FIter<E> {
    // claims of +/-2 and +/-4 stand for "the answer changes": the first len() is honest and later
    // ones are not, or the other way round
    let (claim, claim_later) = match claim {
        2 | -2 => (0, Some(claim / 2)),
        4 | -4 => (claim / 4, Some(0)),
        c => (c, None),
    };
    FIter { tags: tags.to_vec(), pos: 0, panic_at, claim, claim_later, len_calls: std::cell::Cell::new(0), exact_hint, _e: std::marker::PhantomData }
}

// ------------------------------------------------------------------------------------------
// handles with their expected contents

type Fat<H, E> = Arc<HeaderSlice<H, [E]>>;
type FatL<H, E> = Arc<HeaderSlice<HeaderWithLength<H>, [E]>>;

enum K<H: Sh, E: Sh> {
    Fat(Fat<H, E>),
    FatL(FatL<H, E>),
    Thin(ThinArc<H, E>),
    Sl(Arc<[E]>),
    RawSl(*const [E]),
    One(Arc<E>),
    Off(OffsetArc<E>),
    Raw(*const E),
    Dyn(Arc<dyn Probe>),
    Un(ArcUnion<E, H>),
    Un2(ArcUnion<H, E>),
    Uni(UniqueArc<E>),
}

struct Slot<H: Sh, E: Sh> {
    k: K<H, E>,
    hdr: Option<u64>,
    els: Vec<u64>,
}

fn check_els<E: Sh>(what: &str, got: &[E], want: &[u64]) {
    if got.len() != want.len() {
        violation("length-mismatch", format!("{}: slice of {} elements, built from {}", what, got.len(), want.len()));
    }
    for (i, (g, w)) in got.iter().zip(want).enumerate() {
        if g.val() != E::norm(*w) {
            violation("value-mismatch", format!("{}: element {} reads {:#x}, built from {:#x} ({})", what, i, g.val(), E::norm(*w), E::NAME));
        }
    }
}
fn check_hdr<H: Sh>(what: &str, got: &H, want: Option<u64>) {
    if let Some(w) = want {
        if got.val() != H::norm(w) {
            violation("value-mismatch", format!("{}: header reads {:#x}, built from {:#x} ({})", what, got.val(), H::norm(w), H::NAME));
        }
    }
}

fn verify<H: Sh, E: Sh>(s: &Slot<H, E>) {
    match &s.k {
        K::Fat(a) => {
            check_hdr("Arc<HeaderSlice>", &a.header, s.hdr);
            check_els("Arc<HeaderSlice>", &a.slice, &s.els);
        }
        K::FatL(a) => {
            check_hdr("Arc<HeaderSlice<HeaderWithLength>>", &a.header.header, s.hdr);
            check_els("Arc<HeaderSlice<HeaderWithLength>>", &a.slice, &s.els);
        }
        K::Thin(t) => {
            check_hdr("ThinArc", &t.header.header, s.hdr);
            check_els("ThinArc", &t.slice, &s.els);
            t.with_arc(|a| check_els("ThinArc::with_arc", &a.slice, &s.els));
        }
        K::Sl(a) => check_els("Arc<[E]>", a, &s.els),
        K::RawSl(p) => check_els("*const [E]", unsafe { &**p }, &s.els),
        K::One(a) => check_els("Arc<E>", std::slice::from_ref(&**a), &s.els),
        K::Off(o) => {
            check_els("OffsetArc<E>", std::slice::from_ref(&**o), &s.els);
            o.with_arc(|a| check_els("OffsetArc::with_arc", std::slice::from_ref(&**a), &s.els));
        }
        K::Raw(p) => check_els("*const E", std::slice::from_ref(unsafe { &**p }), &s.els),
        K::Dyn(d) => {
            if d.probe() != E::norm(s.els[0]) {
                violation("value-mismatch", format!("Arc<dyn Probe> reads {:#x}, built from {:#x}", d.probe(), E::norm(s.els[0])));
            }
        }
        K::Un(u) => match u.as_first() {
            Some(b) => check_els("ArcUnion first", std::slice::from_ref(&*b), &s.els),
            None => violation("union-variant", "a union built from its first variant reports the second".into()),
        },
        K::Un2(u) => match u.as_second() {
            Some(b) => check_els("ArcUnion second", std::slice::from_ref(&*b), &s.els),
            None => violation("union-variant", "a union built from its second variant reports the first".into()),
        },
        K::Uni(u) => check_els("UniqueArc<E>", std::slice::from_ref(&**u), &s.els),
    }
}

/// (block address, what the handle kind's own count accessor reports); None for unique handles.
fn ident_and_count<H: Sh, E: Sh>(k: &K<H, E>) -> Option<(usize, usize)> {
    use std::mem::ManuallyDrop;
    Some(match k {
        K::Fat(a) => (a.heap_ptr() as usize, Arc::count(a).max(Arc::strong_count(a))),
        K::FatL(a) => (a.heap_ptr() as usize, Arc::count(a)),
        K::Thin(t) => (t.heap_ptr() as usize, ThinArc::strong_count(t).max(t.with_arc(|a| Arc::count(a)))),
        K::Sl(a) => (a.heap_ptr() as usize, Arc::strong_count(a)),
        K::RawSl(p) => {
            let a = ManuallyDrop::new(unsafe { Arc::from_raw_slice(*p) });
            (a.heap_ptr() as usize, Arc::count(&a))
        }
        K::One(a) => (a.heap_ptr() as usize, Arc::count(a).max(triomphe::ArcBorrow::strong_count(&a.borrow_arc()))),
        K::Off(o) => (o.with_arc(|a| a.heap_ptr() as usize), OffsetArc::strong_count(o)),
        K::Raw(p) => {
            let a = ManuallyDrop::new(unsafe { Arc::from_raw(*p) });
            (a.heap_ptr() as usize, Arc::count(&a))
        }
        K::Dyn(d) => (d.heap_ptr() as usize, Arc::strong_count(d)),
        K::Un(u) => (u.as_first().unwrap().with_arc(|a| a.heap_ptr() as usize), ArcUnion::strong_count(u).max(triomphe::ArcUnionBorrow::strong_count(&u.borrow()))),
        K::Un2(u) => (u.as_second().unwrap().with_arc(|a| a.heap_ptr() as usize), ArcUnion::strong_count(u)),
        K::Uni(_) => return None,
    })
}

/// C04 when quiescent: every count accessor reports the number of owning handles of that block.
fn check_counts<H: Sh, E: Sh>(bag: &[Slot<H, E>]) {
    let seen: Vec<(usize, usize)> = bag.iter().filter_map(|s| ident_and_count(&s.k)).collect();
    for (addr, c) in &seen {
        let owners = seen.iter().filter(|x| x.0 == *addr).count();
        if *c != owners {
            violation("count-mismatch", format!("a count accessor reports {} for the block at {:#x}, which {} owning handle(s) refer to", c, addr, owners));
        }
    }
}

fn release<H: Sh, E: Sh>(s: Slot<H, E>) {
    match s.k {
        K::RawSl(p) => drop(unsafe { Arc::from_raw_slice(p) }),
        K::Raw(p) => drop(unsafe { Arc::from_raw(p) }),
        other => drop(other),
    }
}

fn quiet<R>(f: impl FnOnce() -> R) -> Result<R, ()> {
    catch_unwind(AssertUnwindSafe(f)).map_err(|p| drop(p))
}

// ------------------------------------------------------------------------------------------
// constructors

/// Runs a constructor that may unwind. A constructor that unwinds may leak what it had already
/// taken (the library documents that it leaks the half-filled block), but must not destroy
/// anything twice; without an armed fault and with a sized element type it must not unwind.
fn ctor<R>(allow: &mut isize, stats: &mut [u64; 8], faulty: bool, zst: bool, what: &str, f: impl FnOnce() -> R) -> Option<R> {
    let l0 = LIVE.load(Ordering::Relaxed);
    match quiet(f) {
        Ok(v) => Some(v),
        Err(()) => {
            if !faulty && !zst {
                violation("unexpected-panic", format!("{} panicked although nothing was injected", what));
            }
            stats[2] += 1;
            *allow += LIVE.load(Ordering::Relaxed) - l0;
            None
        }
    }
}

fn construct<H: Sh, E: Sh>(r: &mut Rng, stats: &mut [u64; 8], allow: &mut isize) -> Option<Slot<H, E>> {
    let n = [0usize, 1, 2, 3, 5, 8][r.below(6) as usize];
    let tags: Vec<u64> = (0..n).map(|_| r.next() | 1).collect();
    let htag = r.next() | 1;
    // fault plan for iterator-fed constructors
    let fault = if FAULTS.load(Ordering::Relaxed) { r.below(10) } else { r.below(10).max(4) };
    let (panic_at, claim) = match fault {
        0 => (Some(1 + r.below(n as u64 + 1) as usize), 0),
        1 => (None, 1),
        2 => (None, -1),
        3 => (None, [3, 2, -2, 4, -4][r.below(5) as usize]),
        _ => (None, 0),
    };
    if panic_at.is_some() {
        stats[0] += 1;
    }
    if claim != 0 {
        stats[1] += 1;
    }
    let slot = |k, hdr: Option<u64>, els: &[u64]| Some(Slot { k, hdr, els: els.to_vec() });
    let faulty = panic_at.is_some() || claim != 0;
    let zst = std::mem::size_of::<E>() == 0;
    let which = r.below(14);
    println!(
        "OP\t{}",
        match which {
            0 | 2 => if faulty { "faulty-iter" } else { "iter" },
            1 => if faulty { "faulty-iter" } else { "iter" },
            3 | 4 => "vec",
            5 | 7 => "slice",
            6 => "slice",
            8 | 9 | 13 => "uninit",
            10 | 11 => "sized",
            _ => "header-length",
        }
    );
    if matches!(which, 1 | 6) {
        println!("OP\tthin");
    }
    match which {
        0 => ctor(allow, stats, faulty, zst, "Arc::from_header_and_iter", || Arc::from_header_and_iter(H::mk(htag), fiter::<E>(&tags, panic_at, claim, true))).and_then(|a| {
            slot(K::Fat(a), Some(htag), &tags)
        }),
        1 => ctor(allow, stats, faulty, zst, "ThinArc::from_header_and_iter", || ThinArc::from_header_and_iter(H::mk(htag), fiter::<E>(&tags, panic_at, claim, true))).and_then(|t| {
            slot(K::Thin(t), Some(htag), &tags)
        }),
        2 => {
            let exact = r.below(2) == 0;
            ctor(allow, stats, faulty, zst, "collect::<Arc<[E]>>", || fiter::<E>(&tags, panic_at, claim, exact).collect::<Arc<[E]>>()).and_then(|a| {
                slot(K::Sl(a), None, &tags)
            })
        }
        3 => {
            let v: Vec<E> = tags.iter().map(|t| E::mk(*t)).collect();
            let mut v = v;
            if r.below(2) == 0 {
                v.reserve(5);
            }
            ctor(allow, stats, false, zst, "Arc::from_header_and_vec", || Arc::from_header_and_vec(H::mk(htag), v)).and_then(|a| slot(K::Fat(a), Some(htag), &tags))
        }
        4 => {
            let mut v: Vec<E> = Vec::with_capacity(n + r.below(4) as usize);
            v.extend(tags.iter().map(|t| E::mk(*t)));
            ctor(allow, stats, false, zst, "Arc::<[E]>::from(Vec)", || Arc::<[E]>::from(v)).and_then(|a| slot(K::Sl(a), None, &tags))
        }
        5 => {
            let v: Vec<E> = tags.iter().map(|t| E::mk(*t)).collect();
            let h = H::mk(htag);
            match ctor(allow, stats, false, zst, "Arc::from_header_and_slice", || E::fat_from_slice(h, &v)) {
                Some(Ok(a)) => slot(K::Fat(a), Some(htag), &tags),
                _ => None,
            }
        }
        6 => {
            let v: Vec<E> = tags.iter().map(|t| E::mk(*t)).collect();
            let h = H::mk(htag);
            match ctor(allow, stats, false, zst, "ThinArc::from_header_and_slice", || E::thin_from_slice(h, &v)) {
                Some(Ok(t)) => slot(K::Thin(t), Some(htag), &tags),
                _ => None,
            }
        }
        7 => {
            let v: Vec<E> = tags.iter().map(|t| E::mk(*t)).collect();
            ctor(allow, stats, false, zst, "Arc::<[E]>::from(&[E])", || E::sl_from_slice(&v)).flatten().and_then(|a| slot(K::Sl(a), None, &tags))
        }
        8 => {
            // uninitialised header+slice, a seeded subset of slots written
            let mut u: UniqueArc<HeaderSlice<H, [MaybeUninit<E>]>> = UniqueArc::from_header_and_uninit_slice(H::mk(htag), n);
            let full = r.below(2) == 0;
            let mut written = vec![false; n];
            for i in 0..n {
                if full || r.below(2) == 0 {
                    u.slice[i].write(E::mk(tags[i]));
                    written[i] = true;
                }
            }
            stats[3] += 1;
            if full {
                let a: UniqueArc<HeaderSlice<H, [E]>> = unsafe { u.assume_init_slice_with_header() };
                slot(K::Fat(a.shareable()), Some(htag), &tags)
            } else {
                // what was written is the caller's to destroy; the handle must not touch any slot
                for i in 0..n {
                    if written[i] {
                        unsafe { u.slice[i].assume_init_drop() };
                    }
                }
                drop(u);
                None
            }
        }
        9 => {
            let mut u: UniqueArc<[MaybeUninit<E>]> = UniqueArc::new_uninit_slice(n);
            for i in 0..n {
                u[i].write(E::mk(tags[i]));
            }
            stats[3] += 1;
            let a: UniqueArc<[E]> = unsafe { UniqueArc::assume_init_slice(u) };
            slot(K::Sl(a.shareable()), None, &tags)
        }
        10 => {
            let t = r.next() | 1;
            let a = match r.below(4) {
                0 => Arc::new(E::mk(t)),
                1 => Arc::from(Box::new(E::mk(t))),
                2 => Arc::from(E::mk(t)),
                _ => {
                    let mut u: UniqueArc<MaybeUninit<E>> = UniqueArc::new_uninit();
                    u.write(E::mk(t));
                    stats[3] += 1;
                    unsafe { UniqueArc::assume_init(u) }.shareable()
                }
            };
            slot(K::One(a), None, &[t])
        }
        11 => {
            let t = r.next() | 1;
            slot(K::Uni(UniqueArc::new(E::mk(t))), None, &[t])
        }
        12 => {
            // a header-with-length fat Arc, the kind that may become a ThinArc
            // (one time in four the recorded length is wrong: into_thin must then refuse)
            let hl = HeaderWithLength::new(H::mk(htag), if r.below(4) == 0 { n + 1 + r.below(3) as usize } else { n });
            let v: Vec<E> = tags.iter().map(|t| E::mk(*t)).collect();
            ctor(allow, stats, false, zst, "Arc::from_header_and_vec", || Arc::from_header_and_vec(hl, v)).and_then(|a| slot(K::FatL(a), Some(htag), &tags))
        }
        _ => {
            // an uninitialised handle dropped without ever being written
            let u: UniqueArc<HeaderSlice<H, [MaybeUninit<E>]>> = UniqueArc::from_header_and_uninit_slice(H::mk(htag), n);
            drop(u);
            let a: Arc<[MaybeUninit<E>]> = Arc::new_uninit_slice(n);
            drop(a);
            stats[3] += 1;
            if !zst && r.below(3) == 0 {
                // a length whose byte size cannot be represented: refused by a panic before any
                // allocation, the header given up to the constructor is destroyed
                let sz = std::mem::size_of::<E>();
                let huge = [usize::MAX, isize::MAX as usize / sz + 1, usize::MAX / sz, (usize::MAX / sz).wrapping_add(1).max(isize::MAX as usize / sz + 1)][r.below(4) as usize];
                let l0 = LIVE.load(Ordering::Relaxed);
                let res = quiet(|| match huge % 3 {
                    0 => drop(UniqueArc::<HeaderSlice<H, [MaybeUninit<E>]>>::from_header_and_uninit_slice(H::mk(htag), huge)),
                    1 => drop(Arc::<[MaybeUninit<E>]>::new_uninit_slice(huge)),
                    _ => drop(UniqueArc::<[MaybeUninit<E>]>::new_uninit_slice(huge)),
                });
                if res.is_ok() {
                    violation("overflow:accepted", format!("a slice of {} elements of {} bytes was accepted", huge, sz));
                }
                if LIVE.load(Ordering::Relaxed) != l0 {
                    violation("leak:identity", format!("refusing a slice of {} elements left the header alive (or destroyed it twice)", huge));
                }
                stats[6] += 1;
            }
            None
        }
    }
}

// ------------------------------------------------------------------------------------------
// operations

fn op<H: Sh, E: Sh>(bag: &mut Vec<Slot<H, E>>, r: &mut Rng, stats: &mut [u64; 8], allow: &mut isize) {
    if bag.is_empty() {
        return;
    }
    let i = r.below(bag.len() as u64) as usize;
    let Slot { k, hdr, els } = bag.swap_remove(i);
    let back = |bag: &mut Vec<Slot<H, E>>, k, hdr, els| bag.push(Slot { k, hdr, els });
    let sel = r.below(8);
    println!(
        "OP\t{}",
        match (&k, sel) {
            (_, 0..=1) => "clone",
            (K::FatL(_), 2..=3) | (K::Thin(_), 2) => "thin",
            (K::Thin(_), 3) => "with_arc_mut",
            (K::Sl(_), 2) | (K::RawSl(_), _) | (K::One(_), 3) | (K::Raw(_), 0..=5) => "raw",
            (K::Raw(_), _) => "dyn",
            (K::One(_), 2) | (K::Off(_), 2) => "offset",
            (K::One(_), 4) | (K::Un(_), _) | (K::Un2(_), _) => "union",
            (K::One(_), 5) | (K::Off(_), 5) => "cow",
            (K::Uni(_), _) => "uniq",
            (K::One(_), 6) => "unwrap",
            _ => "clone",
        }
    );
    match (k, sel) {
        // clone, keep or drop
        (k, 0..=1) => {
            let c: Option<K<H, E>> = match &k {
                K::Fat(a) => Some(K::Fat(a.clone())),
                K::FatL(a) => Some(K::FatL(a.clone())),
                K::Thin(t) => Some(if r.below(2) == 0 { K::Thin(t.clone()) } else { K::FatL(t.with_arc(|a| a.clone())) }),
                K::Sl(a) => Some(K::Sl(a.clone())),
                K::One(a) => Some(match r.below(3) {
                    0 => K::One(a.clone()),
                    1 => K::One(a.borrow_arc().clone_arc()),
                    _ => K::Off(a.with_raw_offset_arc(|o| o.clone())),
                }),
                K::Off(o) => Some(if r.below(2) == 0 { K::Off(o.clone()) } else { K::One(o.clone_arc()) }),
                K::Dyn(d) => Some(K::Dyn(d.clone())),
                K::Un(u) => Some(if r.below(2) == 0 { K::Un(u.clone()) } else { K::One(u.as_first().unwrap().clone_arc()) }),
                K::Un2(u) => Some(if r.below(2) == 0 { K::Un2(u.clone()) } else { K::One(u.as_second().unwrap().clone_arc()) }),
                K::Raw(_) | K::RawSl(_) | K::Uni(_) => None,
            };
            if let Some(c) = c {
                let s2 = Slot { k: c, hdr, els: els.clone() };
                verify(&s2);
                if r.below(2) == 0 {
                    bag.push(s2);
                } else {
                    release(s2);
                }
            }
            back(bag, k, hdr, els);
        }
        // count-neutral conversions
        (K::FatL(a), 2..=3) => {
            let right = a.header.length == a.slice.len();
            match quiet(|| Arc::into_thin(a)) {
                Ok(t) if right => back(bag, K::Thin(t), hdr, els),
                Ok(_) => violation("missing-refusal", "into_thin accepted a fat Arc whose recorded length differs from its slice length".into()),
                Err(()) if right => violation("unexpected-panic", "into_thin refused a fat Arc whose recorded length is right".into()),
                // refused: the Arc was consumed and must have been released properly (checked by the
                // live-object count at the end of the history, and by Miri)
                Err(()) => stats[5] += 1,
            }
        }
        (K::Thin(t), 2) => back(bag, K::FatL(Arc::from_thin(t)), hdr, els),
        (K::Thin(mut t), 3) => {
            // with_arc_mut: the callback may replace the Arc, and may panic afterwards
            let n2 = r.below(4) as usize;
            let tags2: Vec<u64> = (0..n2).map(|_| r.next() | 1).collect();
            let h2 = r.next() | 1;
            let replace = r.below(3) != 0;
            let boom = r.below(3) == 0 && FAULTS.load(Ordering::Relaxed);
            if boom {
                stats[4] += 1;
            }
            let replaced = std::cell::Cell::new(false);
            let l0 = LIVE.load(Ordering::Relaxed);
            let res = quiet(|| {
                t.with_arc_mut(|a| {
                    if replace {
                        let v: Vec<E> = tags2.iter().map(|x| E::mk(*x)).collect();
                        // (panics for zero-sized elements: "Need to think about ZST")
                        let fresh = ThinArc::from_header_and_iter(H::mk(h2), v.into_iter());
                        *a = Arc::protected_from_thin(fresh);
                        replaced.set(true);
                    }
                    if boom {
                        panic!("injected: with_arc_mut callback");
                    }
                })
            });
            let _ = res;
            if replace && !replaced.get() {
                // the replacement's own constructor unwound; what it had taken may be leaked
                *allow += (LIVE.load(Ordering::Relaxed) - l0).max(0);
            }
            if replaced.get() {
                back(bag, K::Thin(t), Some(h2), tags2);
            } else {
                back(bag, K::Thin(t), hdr, els);
            }
        }
        (K::Sl(a), 2) => back(bag, K::RawSl(Arc::into_raw(a)), hdr, els),
        (K::RawSl(p), _) => back(bag, K::Sl(unsafe { Arc::from_raw_slice(p) }), hdr, els),
        (K::One(a), 2) => back(bag, K::Off(Arc::into_raw_offset(a)), hdr, els),
        (K::Off(o), 2) => back(bag, K::One(Arc::from_raw_offset(o)), hdr, els),
        (K::One(a), 3) => back(bag, K::Raw(Arc::into_raw(a)), hdr, els),
        (K::Raw(p), 0..=5) => back(bag, K::One(unsafe { Arc::from_raw(p) }), hdr, els),
        (K::Raw(p), _) => back(bag, K::Dyn(unsafe { Arc::from_raw(p as *const dyn Probe) }), hdr, els),
        (K::One(a), 4) => {
            if r.below(2) == 0 {
                back(bag, K::Un(ArcUnion::from_first(a)), hdr, els)
            } else {
                back(bag, K::Un2(ArcUnion::from_second(a)), hdr, els)
            }
        }
        (K::Un(u), 2..=4) => {
            let a = u.as_first().unwrap().clone_arc();
            drop(u);
            back(bag, K::One(a), hdr, els);
        }
        (K::Un2(u), 2..=4) => {
            let a = u.as_second().unwrap().clone_arc();
            drop(u);
            back(bag, K::One(a), hdr, els);
        }
        // copy-on-write and uniqueness-gated access
        (K::One(mut a), 5) => {
            let t = r.next() | 1;
            match r.below(3) {
                0 => {
                    Arc::make_mut(&mut a).set(t);
                    back(bag, K::One(a), hdr, vec![t]);
                }
                1 => {
                    if let Some(p) = Arc::get_mut(&mut a) {
                        p.set(t);
                        back(bag, K::One(a), hdr, vec![t]);
                    } else {
                        back(bag, K::One(a), hdr, els);
                    }
                }
                _ => match Arc::try_unique(a) {
                    Ok(mut u) => {
                        u.set(t);
                        back(bag, K::Uni(u), hdr, vec![t]);
                    }
                    Err(a) => back(bag, K::One(a), hdr, els),
                },
            }
        }
        (K::Off(mut o), 5) => {
            let t = r.next() | 1;
            o.make_mut().set(t);
            back(bag, K::Off(o), hdr, vec![t]);
        }
        (K::Uni(u), _) => {
            if r.below(2) == 0 {
                back(bag, K::One(u.shareable()), hdr, els);
            } else {
                let v = UniqueArc::into_inner(u);
                check_els("UniqueArc::into_inner", std::slice::from_ref(&v), &els);
            }
        }
        (K::One(a), 6) => match r.below(2) {
            0 => match Arc::try_unwrap(a) {
                Ok(v) => check_els("Arc::try_unwrap", std::slice::from_ref(&v), &els),
                Err(a) => back(bag, K::One(a), hdr, els),
            },
            _ => {
                let v = Arc::unwrap_or_clone(a);
                check_els("Arc::unwrap_or_clone", std::slice::from_ref(&v), &els);
            }
        },
        (k, _) => {
            let s = Slot { k, hdr, els };
            verify(&s);
            bag.push(s);
        }
    }
}

fn run<H: Sh, E: Sh>(r: &mut Rng, seed: u64, stats: &mut [u64; 8]) {
    let before = LIVE.load(Ordering::Relaxed);
    let mut allow = 0isize;
    let mut bag: Vec<Slot<H, E>> = Vec::new();
    for _ in 0..1 + r.below(3) {
        if let Some(s) = construct::<H, E>(r, stats, &mut allow) {
            verify(&s);
            bag.push(s);
        }
    }
    check_counts(&bag);
    for _ in 0..r.below(9) {
        op(&mut bag, r, stats, &mut allow);
        check_counts(&bag);
    }
    while !bag.is_empty() {
        let i = r.below(bag.len() as u64) as usize;
        let s = bag.swap_remove(i);
        verify(&s);
        release(s);
    }
    let after = LIVE.load(Ordering::Relaxed) - allow;
    if allow < 0 || after != before {
        let class = if after > before { "leak:identity" } else { "double-drop" };
        violation(class, format!("history {} (header {}, element {}): {} payload object(s) alive after every handle was released, {} before", seed, H::NAME, E::NAME, after, before));
    }
}

pub fn scenario(seed: u64, faults: bool, stats: &mut [u64; 8]) {
    FAULTS.store(faults, Ordering::Relaxed);
    let mut r = Rng(seed);
    let combo = r.below(36);
    macro_rules! go {
        ($($i:expr => $h:ty, $e:ty;)*) => {
            match combo {
                $($i => run::<$h, $e>(&mut r, seed, stats),)*
                _ => unreachable!(),
            }
        };
    }
    go! {
        0 => Unit, u8; 1 => Unit, u64; 2 => Unit, T3; 3 => Unit, Pay; 4 => Unit, Big16; 5 => Unit, Zd;
        6 => u8, u8; 7 => u8, u64; 8 => u8, T3; 9 => u8, Pay; 10 => u8, Big16; 11 => u8, Zd;
        12 => u64, u8; 13 => u64, u64; 14 => u64, T3; 15 => u64, Pay; 16 => u64, Big16; 17 => u64, Big64;
        18 => Pay, u8; 19 => Pay, u64; 20 => Pay, T3; 21 => Pay, Pay; 22 => Pay, Big16; 23 => Pay, Zd;
        24 => Big16, u8; 25 => Big16, u64; 26 => Big16, T3; 27 => Big16, Pay; 28 => Big16, Big16; 29 => Big16, Zd;
        30 => Big64, u8; 31 => Zd, u64; 32 => T3, T3; 33 => Zd, Pay; 34 => T3, Big16; 35 => Zd, Zd;
    }
}

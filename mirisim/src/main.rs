//! Second simulation substrate for the schedule properties (C02, C03, C08, C09): the same kind of
//! small generated multi-thread scenarios, but run on real `std::thread`s *inside Miri*, whose
//! seeded scheduler (pre-emption, weak-memory store buffers) decides the interleaving and whose
//! data-race detector is the happens-before monitor. Unlike the baton simulator it also sees the
//! library's own non-atomic accesses (e.g. a read of the allocation after the reference was
//! released). One (scenario seed, miri seed) pair is one exactly repeatable execution.
//!
//! usage: mirisim <class> <seed> <from> <to>      class in {c02, c03, c08, c09}

mod seq;

use std::sync::atomic::{AtomicUsize, Ordering};
use triomphe::{Arc, ArcUnion, HeaderSlice, HeaderWithLength, OffsetArc, ThinArc};

static DROPS: AtomicUsize = AtomicUsize::new(0);

pub struct Pay {
    vals: [u64; 3],
}
impl Pay {
    fn new(x: u64) -> Pay {
        Pay { vals: [x, x + 1, x + 2] }
    }
    fn sum(&self) -> u64 {
        self.vals[0].wrapping_add(self.vals[1]).wrapping_add(self.vals[2])
    }
}
impl Clone for Pay {
    fn clone(&self) -> Pay {
        Pay { vals: self.vals }
    }
}
impl Drop for Pay {
    fn drop(&mut self) {
        // a write to the payload: the destructor must be ordered after every reader
        self.vals[0] = 0xdead;
        DROPS.fetch_add(1, Ordering::Relaxed);
    }
}

type Fat = Arc<HeaderSlice<HeaderWithLength<Pay>, [u64]>>;

enum H {
    /// slice of payloads
    S(Arc<[Pay]>),
    /// union holding its second variant
    U2(ArcUnion<u64, Pay>),
    A(Arc<Pay>),
    O(OffsetArc<Pay>),
    T(ThinArc<Pay, u64>),
    F(Fat),
    U(ArcUnion<Pay, u64>),
    V(Pay),
    None,
}
unsafe impl Send for H {}
unsafe impl Sync for H {}

pub struct Rng(pub u64);
impl Rng {
    pub fn next(&mut self) -> u64 {
        self.0 = self.0.wrapping_add(0x9E37_79B9_7F4A_7C15);
        let mut z = self.0;
        z = (z ^ (z >> 30)).wrapping_mul(0xBF58_476D_1CE4_E5B9);
        z = (z ^ (z >> 27)).wrapping_mul(0x94D0_49BB_1331_11EB);
        z ^ (z >> 31)
    }
    pub fn below(&mut self, n: u64) -> u64 {
        self.next() % n
    }
}

fn read(h: &H) -> u64 {
    match h {
        H::S(s) => s.iter().map(|p| p.sum()).fold(0, u64::wrapping_add),
        H::U2(u) => match u.as_second() {
            Some(b) => b.sum(),
            None => 0,
        },
        H::A(a) => a.sum(),
        H::O(o) => o.sum(),
        H::T(t) => t.header.header.sum() + t.slice.iter().sum::<u64>(),
        H::F(f) => f.header.header.sum() + f.slice.iter().sum::<u64>(),
        H::U(u) => match u.as_first() {
            Some(b) => b.sum(),
            None => 0,
        },
        H::V(p) => p.sum(),
        H::None => 0,
    }
}

fn clone_of(h: &H, how: u64) -> H {
    match h {
        H::S(s) => H::S(s.clone()),
        H::U2(u) => match how % 2 {
            0 => H::U2(u.clone()),
            _ => H::A(u.as_second().unwrap().clone_arc()),
        },
        H::A(a) => match how % 3 {
            0 => H::A(a.clone()),
            1 => H::A(a.borrow_arc().clone_arc()),
            _ => H::O(a.with_raw_offset_arc(|o| o.clone())),
        },
        H::O(o) => match how % 3 {
            0 => H::O(o.clone()),
            1 => H::A(o.clone_arc()),
            _ => H::A(o.with_arc(|a| a.clone())),
        },
        H::T(t) => match how % 2 {
            0 => H::T(t.clone()),
            _ => H::F(t.with_arc(|a| a.clone())),
        },
        H::F(f) => H::F(f.clone()),
        H::U(u) => match how % 2 {
            0 => H::U(u.clone()),
            _ => H::A(u.as_first().unwrap().clone_arc()),
        },
        _ => H::None,
    }
}

fn convert(h: H) -> H {
    match h {
        H::A(a) => H::O(Arc::into_raw_offset(a)),
        H::O(o) => H::A(Arc::from_raw_offset(o)),
        H::T(t) => H::F(Arc::from_thin(t)),
        H::F(f) => H::T(Arc::into_thin(f)),
        H::U(u) => H::U(u),
        x => x,
    }
}

/// Every count accessor the handle kind offers (C04): the value must be a plausible number of
/// owners, and reading it must not race with other threads' clones and drops.
fn counts(h: &H) -> usize {
    match h {
        H::S(s) => Arc::strong_count(s).max(Arc::count(s)),
        H::U2(u) => ArcUnion::strong_count(u),
        H::A(a) => Arc::strong_count(a).max(Arc::count(a)).max(triomphe::ArcBorrow::strong_count(&a.borrow_arc())),
        H::O(o) => OffsetArc::strong_count(o).max(o.with_arc(|a| Arc::count(a))),
        H::T(t) => ThinArc::strong_count(t).max(t.with_arc(|a| Arc::strong_count(a))),
        H::F(f) => Arc::strong_count(f),
        H::U(u) => ArcUnion::strong_count(u).max(triomphe::ArcUnionBorrow::strong_count(&u.borrow())),
        _ => 1,
    }
}

/// One step of a thread's program on its own handle. `class` selects the op mix.
fn step(h: H, class: u32, r: &mut Rng, acc: &mut u64) -> H {
    let k = r.below(10);
    match (class, k) {
        (_, 0..=2) => {
            *acc = acc.wrapping_add(read(&h));
            h
        }
        (_, 3..=4) => {
            let c = clone_of(&h, r.next());
            *acc = acc.wrapping_add(read(&c));
            drop(c);
            h
        }
        (_, 5) => convert(h),
        (4, _) => {
            let c = counts(&h);
            if c == 0 || c > 64 {
                println!("VIOLATION-RECORD\tcount-mismatch\ta count accessor reported {} while at most a dozen handles exist", c);
                std::process::exit(3);
            }
            *acc = acc.wrapping_add(c as u64);
            h
        }
        (3, _) => match h {
            // uniqueness-gated mutable access
            H::A(mut a) => {
                match r.below(3) {
                    0 => {
                        if let Some(p) = Arc::get_mut(&mut a) {
                            p.vals[1] = 7;
                        }
                    }
                    1 => {
                        if a.is_unique() {
                            *acc += 1;
                        }
                    }
                    _ => match Arc::try_unique(a) {
                        Ok(mut u) => {
                            u.vals[2] = 9;
                            return H::A(u.shareable());
                        }
                        Err(b) => return H::A(b),
                    },
                }
                H::A(a)
            }
            H::T(mut t) => {
                t.with_arc_mut(|a| {
                    if let Some(p) = Arc::get_mut(a) {
                        p.header_mut().vals[1] = 7;
                    }
                });
                H::T(t)
            }
            x => x,
        },
        (8, _) => match h {
            H::A(mut a) => {
                Arc::make_mut(&mut a).vals[1] = 11;
                H::A(a)
            }
            H::O(mut o) => {
                o.make_mut().vals[1] = 11;
                H::O(o)
            }
            x => x,
        },
        (9, _) => match h {
            H::A(a) => match r.below(2) {
                0 => match Arc::try_unwrap(a) {
                    Ok(v) => H::V(v),
                    Err(b) => H::A(b),
                },
                _ => H::V(Arc::unwrap_or_clone(a)),
            },
            x => x,
        },
        _ => {
            *acc = acc.wrapping_add(read(&h));
            h
        }
    }
}

fn scenario(class: u32, seed: u64) {
    let mut r = Rng(seed);
    let nthreads = 2 + r.below(2) as usize;
    let kind = r.below(4);
    let before = DROPS.load(Ordering::Relaxed);
    let kind = if r.below(3) == 0 { 4 + r.below(2) } else { kind };
    let first: H = match kind {
        4 => H::S((0..3).map(|i| Pay::new(seed + i)).collect::<Vec<_>>().into()),
        5 => H::U2(ArcUnion::from_second(Arc::new(Pay::new(seed)))),
        0 => H::A(Arc::new(Pay::new(seed))),
        1 => H::O(Arc::into_raw_offset(Arc::new(Pay::new(seed)))),
        2 => H::T(ThinArc::from_header_and_iter(Pay::new(seed), vec![1u64, 2, 3].into_iter())),
        _ => H::U(ArcUnion::from_first(Arc::new(Pay::new(seed)))),
    };
    // classes that need a plain Arc get one
    let first = if matches!(class, 8 | 9) && !matches!(first, H::A(_) | H::O(_)) { H::A(Arc::new(Pay::new(seed))) } else { first };
    if r.below(3) == 0 {
        // all threads work through one handle borrowed by reference (clone through &self)
        let shared = &first;
        std::thread::scope(|sc| {
            for t in 0..nthreads {
                let mut tr = Rng(seed ^ (t as u64 + 7).wrapping_mul(0x1234_5678_9ABC_DEF1));
                sc.spawn(move || {
                    let mut acc = 0u64;
                    let n = 1 + tr.below(3);
                    let mut mine: Vec<H> = Vec::new();
                    for _ in 0..n {
                        let c = clone_of(shared, tr.next());
                        acc = acc.wrapping_add(read(&c)).wrapping_add(read(shared));
                        if tr.below(2) == 0 {
                            mine.push(c);
                        }
                    }
                    for h in mine {
                        let mut h = h;
                        h = step(h, class, &mut tr, &mut acc);
                        drop(h);
                    }
                    std::hint::black_box(acc);
                });
            }
        });
        drop(first);
        let after = DROPS.load(Ordering::Relaxed);
        if after == before {
            println!("VIOLATION-RECORD\tleak:not-freed\tscenario {} (class {}, shared borrow): no payload was destroyed although every handle was released", seed, class);
            std::process::exit(3);
        }
        return;
    }
    let mut handles: Vec<H> = Vec::new();
    for i in 1..nthreads {
        handles.push(clone_of(&first, i as u64 * 3));
    }
    handles.insert(0, first);
    let mut joins = Vec::new();
    for (t, h) in handles.into_iter().enumerate() {
        let mut tr = Rng(seed ^ (t as u64 + 1).wrapping_mul(0xABCD_1234_5678_9ABD));
        joins.push(std::thread::spawn(move || {
            let mut h = h;
            let mut acc = 0u64;
            let n = 1 + tr.below(4);
            for _ in 0..n {
                h = step(h, class, &mut tr, &mut acc);
            }
            drop(h);
            acc
        }));
    }
    let mut total = 0u64;
    for j in joins {
        total = total.wrapping_add(j.join().unwrap());
    }
    std::hint::black_box(total);
    let after = DROPS.load(Ordering::Relaxed);
    // every payload that existed (the original and make_mut / unwrap_or_clone copies) is destroyed
    // exactly once; at least the original must be gone now
    if after == before {
        println!("VIOLATION-RECORD\tleak:not-freed\tscenario {} (class {}): no payload was destroyed although every handle was released", seed, class);
        std::process::exit(3);
    }
}

fn main() {
    let a: Vec<String> = std::env::args().collect();
    if a.len() < 5 {
        eprintln!("usage: mirisim <class> <seed> <from> <to>");
        std::process::exit(2);
    }
    let class: u32 = a[1].trim_start_matches('c').parse().unwrap_or(2);
    let seed: u64 = a[2].parse().unwrap_or(1);
    let from: u64 = a[3].parse().unwrap_or(0);
    let to: u64 = a[4].parse().unwrap_or(1);
    let mut stats = [0u64; 8];
    // Injected panics are part of the workload and are caught where they are injected. A panic
    // that escapes a scenario is one of the harness's own expectations failing (an accessor that
    // answers None, a join that fails): that is a finding about the library, reported like any other.
    static LAST_PANIC: std::sync::Mutex<String> = std::sync::Mutex::new(String::new());
    std::panic::set_hook(Box::new(|info| {
        let msg = info.payload().downcast_ref::<&str>().map(|s| s.to_string()).or_else(|| info.payload().downcast_ref::<String>().cloned()).unwrap_or_default();
        if !msg.starts_with("injected:") {
            let loc = info.location().map(|l| format!("{}:{}", l.file(), l.line())).unwrap_or_default();
            if let Ok(mut g) = LAST_PANIC.lock() {
                *g = format!("{} at {}", msg, loc);
            }
        }
    }));
    for i in from..to {
        println!("BEGIN\tmiri-c{:02}\t{}", class, i);
        let s = seed.wrapping_mul(0x9E37_79B9).wrapping_add(i.wrapping_mul(0x1_0000_0001));
        let r = std::panic::catch_unwind(std::panic::AssertUnwindSafe(|| {
            if class <= 1 {
                seq::scenario(s, class == 0, &mut stats);
            } else {
                scenario(class, s);
            }
        }));
        if r.is_err() {
            let what = LAST_PANIC.lock().map(|g| g.clone()).unwrap_or_default();
            println!("VIOLATION-RECORD\tunexpected-panic\tscenario {} (class {}): {}", s, class, what.replace('\n', " "));
            std::process::exit(3);
        }
    }
    if class <= 1 {
        println!(
            "STATS\titerator_panics_armed={}\tlying_iterators={}\tconstructions_unwound={}\tuninit_constructions={}\tcallback_panics={}\tinto_thin_refusals={}\thuge_lengths_refused={}",
            stats[0], stats[1], stats[2], stats[3], stats[4], stats[5], stats[6]
        );
    }
    println!("RUN-OK\tscenarios={}", to - from);
}

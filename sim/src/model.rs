//! The reference model: allocation -> owners + expected contents + expected layout.
//! Updated from each operation's *specified* effect, never from triomphe's answers.

use crate::family::Family;
use crate::shapes::Shape;

#[derive(Clone, Copy, Debug, PartialEq, Eq)]
pub enum Class {
    P,
    Q,
    Hs,
    Sl,
    Fat,
    Str,
    HStr,
}

#[derive(Clone, Debug)]
pub struct AllocM {
    pub class: Class,
    pub block: u32,
    pub ptr: usize,
    pub data_off: usize,
    pub owners: i32,
    /// sized payload identity (0 for ZST)
    pub val: Option<u32>,
    pub header: Option<u32>,
    pub elems: Vec<u32>,
    /// for MaybeUninit-typed payloads: which slots hold a value
    pub written: Vec<bool>,
    pub nelems: usize,
    pub hlen: Option<usize>,
    pub s: Option<String>,
    /// payload currently typed MaybeUninit (element destructors must not run)
    pub uninit: bool,
    pub dead: bool,
    /// half-built allocation leaked by a constructor that unwound (documented leak)
    pub leaked: bool,
    /// the header is a zero-sized tracked value
    pub zst_hdr: bool,
    /// number of zero-sized tracked elements / value the allocation holds
    pub zst_body: usize,
    pub created_by: u8,
    /// elements have an observable destructor (false for Copy shapes)
    pub elems_tracked: bool,
    /// payload offset confirmed by an observation through a dereferenceable handle
    pub off_seen: bool,
    /// last observed raw contents of never-written slots of an uninitialised allocation
    pub observed: Vec<Option<u32>>,
    /// property families of every op that created, converted or operated on this allocation
    pub fams: u32,
    /// the sized payload has a destructor to observe (false for payloads without drop glue)
    pub val_tracked: bool,
    pub hdr_tracked: bool,
}

#[derive(Default)]
pub struct Model {
    pub allocs: Vec<AllocM>,
    /// zero-sized tracked values that legally never get a destructor (documented leak, or
    /// written into an allocation that was dropped while still uninitialised)
    pub forgotten_zst: i64,
}

pub fn round_up(x: usize, a: usize) -> usize {
    (x + a - 1) / a * a
}

const WORD: usize = std::mem::size_of::<usize>();

/// Size of the reference count in front of the payload (learnt from the shim: the width of the
/// atomic type triomphe operates on; a machine word unless a refactor chose otherwise).
fn counter_width() -> usize {
    triomphe_verif_rt::sim::COUNTER_WIDTH.load(std::sync::atomic::Ordering::Relaxed)
}

/// Layout of the whole block for a payload of the given size/alignment:
/// (size, align, offset of the payload). Written independently of `Layout::extend`.
pub fn arcinner(payload_size: usize, payload_align: usize) -> (usize, usize, usize) {
    let cw = counter_width();
    let align = cw.max(payload_align);
    let off = round_up(cw, payload_align);
    let size = round_up(off + payload_size, align);
    (size, align, off)
}
/// repr(C) struct { header, [elem; n] }: (size, align, offset of the slice)
pub fn header_slice(hs: usize, ha: usize, es: usize, ea: usize, n: usize) -> (usize, usize, usize) {
    let align = ha.max(ea);
    let off = round_up(hs, ea);
    let size = round_up(off + n * es, align);
    (size, align, off)
}
/// repr(C) struct { header, usize }
pub fn header_with_length(hs: usize, ha: usize) -> (usize, usize) {
    let align = ha.max(WORD);
    let size = round_up(round_up(hs, WORD) + WORD, align);
    (size, align)
}

/// Expected (block size, block align, payload offset) for an allocation of `class`.
pub fn expected_layout<F: Family>(class: Class, n: usize) -> (usize, usize, usize) {
    match class {
        Class::P => arcinner(F::P::SIZE, F::P::ALIGN),
        Class::Q => arcinner(F::Q::SIZE, F::Q::ALIGN),
        Class::Hs => {
            let (s, a, _) = header_slice(F::H::SIZE, F::H::ALIGN, F::E::SIZE, F::E::ALIGN, n);
            arcinner(s, a)
        }
        Class::Sl => {
            let (s, a, _) = header_slice(0, 1, F::E::SIZE, F::E::ALIGN, n);
            arcinner(s, a)
        }
        Class::Fat => {
            let (hs, ha) = header_with_length(F::H::SIZE, F::H::ALIGN);
            let (s, a, _) = header_slice(hs, ha, F::E::SIZE, F::E::ALIGN, n);
            arcinner(s, a)
        }
        Class::Str => arcinner(n, 1),
        Class::HStr => {
            let (s, a, _) = header_slice(F::H::SIZE, F::H::ALIGN, 1, 1, n);
            arcinner(s, a)
        }
    }
}

/// Offset of the slice elements from the payload start.
pub fn slice_offset<F: Family>(class: Class) -> usize {
    match class {
        Class::Hs => round_up(F::H::SIZE, F::E::ALIGN),
        Class::Fat => {
            let (hs, _) = header_with_length(F::H::SIZE, F::H::ALIGN);
            round_up(hs, F::E::ALIGN)
        }
        Class::HStr => F::H::SIZE,
        _ => 0,
    }
}

impl Model {
    pub fn new() -> Model {
        Model::default()
    }
    pub fn live_allocs(&self) -> impl Iterator<Item = (usize, &AllocM)> {
        self.allocs.iter().enumerate().filter(|(_, a)| !a.dead && !a.leaked)
    }
    /// All identities the allocation would destroy when it goes away.
    pub fn destroy_set(&self, ai: usize) -> (Vec<u32>, usize) {
        let a = &self.allocs[ai];
        let mut ids = Vec::new();
        if let Some(v) = a.val {
            if v != 0 && !a.uninit && a.val_tracked {
                ids.push(v);
            }
        }
        if let Some(h) = a.header {
            if h != 0 && a.hdr_tracked {
                ids.push(h);
            }
        }
        if !a.uninit && a.elems_tracked {
            for &e in &a.elems {
                if e != 0 {
                    ids.push(e);
                }
            }
        }
        let zst = (a.zst_hdr as usize) + if a.uninit { 0 } else { a.zst_body };
        (ids, zst)
    }
}


//! Identity-tracked payload shapes, the identity registry, callback fault plan and the
//! harness iterator. All user code that triomphe calls back into lives here.

use std::cmp::Ordering;
use std::hash::{Hash, Hasher};
use std::sync::Mutex;
use triomphe_verif_rt::ledger::NoTrack;
use triomphe_verif_rt::sim::{self, Access, Space};

// ------------------------------------------------------------------------------------------
// registry

#[derive(Clone, Copy, Debug, PartialEq, Eq)]
pub enum IdState {
    Unused,
    Live,
    Dropped,
    /// element of a half-built allocation leaked by a constructor that unwound (documented),
    /// or a written slot of an uninitialised allocation that was dropped before assume_init
    Forgotten,
    Plain,
}

#[derive(Clone, Copy, Debug, PartialEq, Eq, Hash, PartialOrd, Ord)]
#[repr(u8)]
pub enum Cb {
    IterNext = 0,
    IterLen = 1,
    IterHint = 2,
    Clone = 3,
    Cmp = 4,
    Hash = 5,
    Fmt = 6,
    Closure = 7,
    /// the payload's destructor (armed only while a handle is being released by a `drop` op)
    Drop = 8,
    /// `Default::default` of a payload, called by `Arc::default`
    Default = 9,
}
pub const NCB: usize = 10;
pub const CB_NAMES: [&str; NCB] = ["iter.next", "iter.len", "iter.size_hint", "clone", "cmp", "hash", "fmt", "closure", "drop", "default"];

thread_local! {
    static DROP_CTX: std::cell::Cell<bool> = const { std::cell::Cell::new(false) };
}
/// Destructor panics are injected only inside this scope (the release of a handle by `drop`).
pub fn set_drop_ctx(on: bool) -> bool {
    DROP_CTX.with(|c| c.replace(on))
}
fn drop_ctx() -> bool {
    DROP_CTX.try_with(|c| c.get()).unwrap_or(false)
}
pub fn cb_from_name(s: &str) -> Option<Cb> {
    let i = CB_NAMES.iter().position(|&n| n == s)?;
    Some(unsafe { std::mem::transmute::<u8, Cb>(i as u8) })
}

/// Marker payload of an injected panic.
pub struct InjectedPanic(pub Cb, pub u32);

#[derive(Clone, Debug, Default)]
pub struct OpEvents {
    /// identities created while the op ran (temporaries of the library are tolerated)
    pub created: Vec<u32>,
    pub drops: Vec<u32>,
    pub zst_drops: u32,
    pub clones: Vec<(u32, u32)>,
    pub zst_clones: u32,
    pub cmps: u32,
}

pub struct Registry {
    pub states: Vec<IdState>,
    pub next_small: u32,
    pub next_large: u32,
    pub zst_live: i64,
    pub zst_created: u64,
    pub ev: [OpEvents; 4],
    pub cb_calls: [u32; NCB],
    /// fault plan: (callback class, k-th invocation, already fired)
    pub faults: Vec<(Cb, u32, bool)>,
    pub fault_fired: bool,
    pub drops_total: u64,
}

impl Registry {
    const fn new() -> Registry {
        Registry {
            states: Vec::new(),
            next_small: 1,
            next_large: 256,
            zst_live: 0,
            zst_created: 0,
            ev: [
                OpEvents { created: Vec::new(), drops: Vec::new(), zst_drops: 0, clones: Vec::new(), zst_clones: 0, cmps: 0 },
                OpEvents { created: Vec::new(), drops: Vec::new(), zst_drops: 0, clones: Vec::new(), zst_clones: 0, cmps: 0 },
                OpEvents { created: Vec::new(), drops: Vec::new(), zst_drops: 0, clones: Vec::new(), zst_clones: 0, cmps: 0 },
                OpEvents { created: Vec::new(), drops: Vec::new(), zst_drops: 0, clones: Vec::new(), zst_clones: 0, cmps: 0 },
            ],
            cb_calls: [0; NCB],
            faults: Vec::new(),
            fault_fired: false,
            drops_total: 0,
        }
    }
    fn reset(&mut self) {
        self.states.clear();
        self.next_small = 1;
        self.next_large = 256;
        self.zst_live = 0;
        self.zst_created = 0;
        for e in self.ev.iter_mut() {
            *e = OpEvents::default();
        }
        self.cb_calls = [0; NCB];
        self.faults.clear();
        self.fault_fired = false;
        self.drops_total = 0;
    }
    pub fn state(&self, id: u32) -> IdState {
        self.states.get(id as usize).copied().unwrap_or(IdState::Unused)
    }
    fn set(&mut self, id: u32, s: IdState) {
        if self.states.len() <= id as usize {
            self.states.resize(id as usize + 1, IdState::Unused);
        }
        self.states[id as usize] = s;
    }
}

static REG: Mutex<Registry> = Mutex::new(Registry::new());

pub fn reg<R>(f: impl FnOnce(&mut Registry) -> R) -> R {
    let _nt = NoTrack::new();
    let mut g = REG.lock().unwrap_or_else(|e| e.into_inner());
    f(&mut g)
}
pub fn reset_registry() {
    reg(|r| r.reset());
}

fn low_byte_reserved(id: u32) -> bool {
    let b = id & 0xff;
    b == 0xA5 || b == 0xDD || b == 0x5A || b == 0
}

/// Identities that fit in one byte are a scarce resource (1-byte shapes only).
pub fn small_ids_left() -> u32 {
    reg(|r| 250u32.saturating_sub(r.next_small))
}

fn fresh_id(width: usize, st: IdState) -> u32 {
    reg(|r| {
        let id = if width == 1 {
            while low_byte_reserved(r.next_small) {
                r.next_small += 1;
            }
            let id = r.next_small;
            r.next_small += 1;
            if id > 255 {
                triomphe_verif_rt::harness_error("1-byte identity space exhausted");
            }
            id
        } else {
            while low_byte_reserved(r.next_large) {
                r.next_large += 1;
            }
            let id = r.next_large;
            r.next_large += 1;
            if id > 60000 {
                triomphe_verif_rt::harness_error("identity space exhausted");
            }
            id
        };
        r.set(id, st);
        let t = tix();
        r.ev[t].created.push(id);
        id
    })
}

fn tix() -> usize {
    let t = sim::tid();
    if t == sim::NONE {
        0
    } else {
        t
    }
}

pub fn take_events() -> OpEvents {
    let t = tix();
    reg(|r| std::mem::take(&mut r.ev[t]))
}

pub fn mark_forgotten(id: u32) {
    reg(|r| {
        if r.state(id) == IdState::Live {
            r.set(id, IdState::Forgotten)
        }
    });
}

/// Classify a raw identity field as read from memory.
pub fn fill_class(raw: u32, width: usize) -> Option<&'static str> {
    let (a5, dd, z5a) = match width {
        1 => (0xA5u32, 0xDDu32, 0x5Au32),
        2 => (0xA5A5, 0xDDDD, 0x5A5A),
        _ => (0xA5A5_A5A5, 0xDDDD_DDDD, 0x5A5A_5A5A),
    };
    if raw == a5 {
        Some("uninit")
    } else if raw == dd {
        Some("freed")
    } else if raw == z5a {
        Some("redzone")
    } else {
        None
    }
}

fn on_drop(raw: u32, width: usize, shape: &'static str) {
    if let Some(c) = fill_class(raw, width) {
        triomphe_verif_rt::violation(
            &format!("drop-{}", c),
            format!("destructor of a {} ran on a slot holding the {} memory pattern (never a value)", shape, c),
        );
    }
    let t = tix();
    let st = reg(|r| {
        let st = r.state(raw);
        if st == IdState::Live {
            r.set(raw, IdState::Dropped);
            r.ev[t].drops.push(raw);
            r.drops_total += 1;
        }
        st
    });
    match st {
        IdState::Live => {}
        IdState::Dropped => triomphe_verif_rt::violation(
            "double-drop",
            format!("payload #{} ({}) destroyed a second time", raw, shape),
        ),
        IdState::Forgotten => triomphe_verif_rt::violation(
            "drop-forgotten",
            format!("payload #{} ({}) destroyed although it belongs to a leaked / not-yet-initialised allocation", raw, shape),
        ),
        _ => triomphe_verif_rt::violation(
            "drop-garbage",
            format!("destructor of a {} ran on a slot holding garbage identity {:#x}", shape, raw),
        ),
    }
    sim::access(Space::Ident, raw, Access::Drop);
    if drop_ctx() && !std::thread::panicking() {
        callback(Cb::Drop);
    }
}

/// Called by every callback; panics if the fault plan says so.
pub fn callback(cb: Cb) {
    let fire = reg(|r| {
        r.cb_calls[cb as usize] += 1;
        let calls = r.cb_calls[cb as usize];
        match r.faults.iter_mut().find(|f| f.0 == cb && f.1 == calls && !f.2) {
            Some(f) => {
                f.2 = true;
                r.fault_fired = true;
                Some(calls)
            }
            None => None,
        }
    });
    if let Some(k) = fire {
        crate::probes::hit(crate::probes::P_PANIC_IN_CB0 + cb as usize);
        std::panic::panic_any(InjectedPanic(cb, k));
    }
}

// ------------------------------------------------------------------------------------------
// shapes

pub trait Shape: Sized + Send + Sync + 'static {
    const NAME: &'static str;
    const SIZE: usize = std::mem::size_of::<Self>();
    const ALIGN: usize = std::mem::align_of::<Self>();
    const ZST: bool = std::mem::size_of::<Self>() == 0;
    /// has an observable destructor
    const TRACKED: bool;
    /// width of the identity field in bytes (0 for ZST)
    const IDW: usize;
    /// Create a fresh, registered value.
    fn fresh() -> Self;
    /// Identity as stored in memory (no checks). 0 for ZSTs.
    fn raw(&self) -> u32;
    /// Overwrite the identity in place without running a destructor (a "write" to the value):
    /// retires the old identity and returns the new one.
    fn rewrite(&mut self) -> u32;
    /// Validated read: reports the access to the monitor and returns the identity.
    fn read(&self) -> u32 {
        let raw = self.raw();
        if Self::ZST {
            return 0;
        }
        if let Some(c) = fill_class(raw, Self::IDW) {
            triomphe_verif_rt::violation(
                &format!("read-{}", c),
                format!("a {} was read from memory holding the {} pattern", Self::NAME, c),
            );
        }
        if Self::TRACKED {
            let st = reg(|r| r.state(raw));
            match st {
                IdState::Live => {}
                IdState::Dropped => triomphe_verif_rt::violation(
                    "read-after-drop",
                    format!("payload #{} ({}) read after its destructor ran", raw, Self::NAME),
                ),
                IdState::Forgotten => {}
                _ => triomphe_verif_rt::violation(
                    "read-garbage",
                    format!("a {} was read holding garbage identity {:#x}", Self::NAME, raw),
                ),
            }
            sim::access(Space::Ident, raw, Access::Read);
        }
        raw
    }
    fn can_make(n: usize) -> bool {
        if Self::IDW == 1 {
            small_ids_left() as usize > n + 4
        } else {
            true
        }
    }
}

macro_rules! tracked_shape {
    ($name:ident, $idty:ty, $idw:expr, $align:expr, $pad:expr) => {
        #[repr(C, align($align))]
        pub struct $name {
            id: $idty,
            _pad: [u8; $pad],
        }
        impl Shape for $name {
            const NAME: &'static str = stringify!($name);
            const TRACKED: bool = true;
            const IDW: usize = $idw;
            fn fresh() -> Self {
                let id = fresh_id($idw, IdState::Live);
                sim::access(Space::Ident, id, Access::Create);
                $name { id: id as $idty, _pad: [0x11; $pad] }
            }
            #[inline]
            fn raw(&self) -> u32 {
                unsafe { std::ptr::read_volatile(&self.id) as u32 }
            }
            fn rewrite(&mut self) -> u32 {
                let old = self.raw();
                let new = fresh_id($idw, IdState::Live);
                reg(|r| r.set(old, IdState::Unused));
                sim::access(Space::Ident, old, Access::Write);
                sim::access(Space::Ident, new, Access::Create);
                unsafe { std::ptr::write_volatile(&mut self.id, new as $idty) };
                new
            }
        }
        impl Drop for $name {
            fn drop(&mut self) {
                on_drop(self.raw(), $idw, stringify!($name));
            }
        }
        impl Clone for $name {
            fn clone(&self) -> Self {
                callback(Cb::Clone);
                let src = self.read();
                let n = Self::fresh();
                let t = tix();
                reg(|r| r.ev[t].clones.push((src, n.raw())));
                n
            }
        }
        impl Default for $name {
            fn default() -> Self {
                callback(Cb::Default);
                Self::fresh()
            }
        }
        impl PartialEq for $name {
            fn eq(&self, o: &Self) -> bool {
                callback(Cb::Cmp);
                self.read() == o.read()
            }
        }
        impl Eq for $name {}
        impl PartialOrd for $name {
            fn partial_cmp(&self, o: &Self) -> Option<Ordering> {
                callback(Cb::Cmp);
                self.read().partial_cmp(&o.read())
            }
        }
        impl Ord for $name {
            fn cmp(&self, o: &Self) -> Ordering {
                callback(Cb::Cmp);
                self.read().cmp(&o.read())
            }
        }
        impl Hash for $name {
            fn hash<H: Hasher>(&self, h: &mut H) {
                callback(Cb::Hash);
                self.read().hash(h)
            }
        }
        impl std::fmt::Debug for $name {
            fn fmt(&self, f: &mut std::fmt::Formatter<'_>) -> std::fmt::Result {
                callback(Cb::Fmt);
                write!(f, "#{}", self.read())
            }
        }
        impl crate::handle::Probe for $name {
            fn probe_id(&self) -> u32 {
                self.read()
            }
        }
        #[cfg(feature = "cfg_a")]
        impl<'de> serde::Deserialize<'de> for $name {
            fn deserialize<D: serde::Deserializer<'de>>(d: D) -> Result<Self, D::Error> {
                let _ = <u32 as serde::Deserialize>::deserialize(d)?;
                Ok(Self::fresh())
            }
        }
    };
}

// name, id type, id width, alignment, padding bytes (size = max(idw+pad rounded to align))
tracked_shape!(T1A1, u8, 1, 1, 0);
tracked_shape!(T2A2, u16, 2, 2, 0);
tracked_shape!(T3A1P, u8, 1, 1, 2); // size 3 align 1
tracked_shape!(T4A4, u32, 4, 4, 0);
tracked_shape!(T6A2, u16, 2, 2, 4); // size 6 align 2
tracked_shape!(T8A8, u32, 4, 8, 0); // size 8 align 8
tracked_shape!(T8A4, u32, 4, 4, 4); // size 8 align 4
tracked_shape!(T12A4, u32, 4, 4, 8);
tracked_shape!(T16A16, u32, 4, 16, 0);
tracked_shape!(T24A8, u32, 4, 8, 20);
tracked_shape!(T32A32, u32, 4, 32, 0);
tracked_shape!(T40A8, u32, 4, 8, 36);
tracked_shape!(T64A64, u32, 4, 64, 0);
tracked_shape!(T2A1P, u8, 1, 1, 1); // size 2 align 1

/// Shapes without drop glue (`needs_drop::<T>() == false`): contents and clones are observed, there
/// is no destructor. Exists because "plain data" fast paths in a library are selected at compile
/// time by exactly that predicate.
macro_rules! nodrop_shape {
    ($name:ident, $idty:ty, $idw:expr, $align:expr, $pad:expr) => {
        #[repr(C, align($align))]
        pub struct $name {
            id: $idty,
            _pad: [u8; $pad],
        }
        impl Shape for $name {
            const NAME: &'static str = stringify!($name);
            const TRACKED: bool = false;
            const IDW: usize = $idw;
            fn fresh() -> Self {
                let id = fresh_id($idw, IdState::Plain);
                $name { id: id as $idty, _pad: [0x33; $pad] }
            }
            #[inline]
            fn raw(&self) -> u32 {
                unsafe { std::ptr::read_volatile(&self.id) as u32 }
            }
            fn rewrite(&mut self) -> u32 {
                let new = fresh_id($idw, IdState::Plain);
                unsafe { std::ptr::write_volatile(&mut self.id, new as $idty) };
                new
            }
        }
        impl Clone for $name {
            fn clone(&self) -> Self {
                callback(Cb::Clone);
                let src = self.read();
                let n = Self::fresh();
                let t = tix();
                reg(|r| r.ev[t].clones.push((src, n.raw())));
                n
            }
        }
        impl Default for $name {
            fn default() -> Self {
                callback(Cb::Default);
                Self::fresh()
            }
        }
        impl PartialEq for $name {
            fn eq(&self, o: &Self) -> bool {
                callback(Cb::Cmp);
                self.read() == o.read()
            }
        }
        impl Eq for $name {}
        impl PartialOrd for $name {
            fn partial_cmp(&self, o: &Self) -> Option<Ordering> {
                callback(Cb::Cmp);
                self.read().partial_cmp(&o.read())
            }
        }
        impl Ord for $name {
            fn cmp(&self, o: &Self) -> Ordering {
                callback(Cb::Cmp);
                self.read().cmp(&o.read())
            }
        }
        impl Hash for $name {
            fn hash<H: Hasher>(&self, h: &mut H) {
                callback(Cb::Hash);
                self.read().hash(h)
            }
        }
        impl std::fmt::Debug for $name {
            fn fmt(&self, f: &mut std::fmt::Formatter<'_>) -> std::fmt::Result {
                callback(Cb::Fmt);
                write!(f, "n{}", self.read())
            }
        }
        impl crate::handle::Probe for $name {
            fn probe_id(&self) -> u32 {
                self.read()
            }
        }
        #[cfg(feature = "cfg_a")]
        impl<'de> serde::Deserialize<'de> for $name {
            fn deserialize<D: serde::Deserializer<'de>>(d: D) -> Result<Self, D::Error> {
                let _ = <u32 as serde::Deserialize>::deserialize(d)?;
                Ok(Self::fresh())
            }
        }
    };
}
nodrop_shape!(N4A4, u32, 4, 4, 0);
nodrop_shape!(N8A8, u32, 4, 8, 0);
nodrop_shape!(N16A16, u32, 4, 16, 0);
nodrop_shape!(N40A8, u32, 4, 8, 36);

/// Zero-sized tracked shape: counted, not identified.
pub struct Z0;
impl Shape for Z0 {
    const NAME: &'static str = "Z0";
    const TRACKED: bool = true;
    const IDW: usize = 0;
    fn fresh() -> Self {
        reg(|r| {
            r.zst_live += 1;
            r.zst_created += 1;
        });
        Z0
    }
    fn raw(&self) -> u32 {
        0
    }
    fn rewrite(&mut self) -> u32 {
        0
    }
}
impl Drop for Z0 {
    fn drop(&mut self) {
        let t = tix();
        let live = reg(|r| {
            r.zst_live -= 1;
            r.ev[t].zst_drops += 1;
            r.drops_total += 1;
            r.zst_live
        });
        if live < 0 {
            triomphe_verif_rt::violation("double-drop", "more zero-sized payloads destroyed than were ever created".into());
        }
        if drop_ctx() && !std::thread::panicking() {
            callback(Cb::Drop);
        }
    }
}
impl Clone for Z0 {
    fn clone(&self) -> Self {
        callback(Cb::Clone);
        let t = tix();
        reg(|r| r.ev[t].zst_clones += 1);
        Z0::fresh()
    }
}
impl Default for Z0 {
    fn default() -> Self {
        callback(Cb::Default);
        Z0::fresh()
    }
}
impl PartialEq for Z0 {
    fn eq(&self, _: &Self) -> bool {
        callback(Cb::Cmp);
        true
    }
}
impl Eq for Z0 {}
impl PartialOrd for Z0 {
    fn partial_cmp(&self, _: &Self) -> Option<Ordering> {
        callback(Cb::Cmp);
        Some(Ordering::Equal)
    }
}
impl Ord for Z0 {
    fn cmp(&self, _: &Self) -> Ordering {
        callback(Cb::Cmp);
        Ordering::Equal
    }
}
impl Hash for Z0 {
    fn hash<H: Hasher>(&self, _: &mut H) {
        callback(Cb::Hash);
    }
}
impl std::fmt::Debug for Z0 {
    fn fmt(&self, f: &mut std::fmt::Formatter<'_>) -> std::fmt::Result {
        callback(Cb::Fmt);
        write!(f, "Z0")
    }
}
impl crate::handle::Probe for Z0 {
    fn probe_id(&self) -> u32 {
        0
    }
}
#[cfg(feature = "cfg_a")]
impl<'de> serde::Deserialize<'de> for Z0 {
    fn deserialize<D: serde::Deserializer<'de>>(d: D) -> Result<Self, D::Error> {
        let _ = <u32 as serde::Deserialize>::deserialize(d)?;
        Ok(Z0::fresh())
    }
}

/// Plain (Copy) shapes: contents are checked, there is no destructor to observe.
macro_rules! plain_shape {
    ($name:ident, $idty:ty, $idw:expr, $align:expr, $pad:expr) => {
        #[derive(Clone, Copy)]
        #[repr(C, align($align))]
        pub struct $name {
            id: $idty,
            _pad: [u8; $pad],
        }
        impl Shape for $name {
            const NAME: &'static str = stringify!($name);
            const TRACKED: bool = false;
            const IDW: usize = $idw;
            fn fresh() -> Self {
                let id = fresh_id($idw, IdState::Plain);
                $name { id: id as $idty, _pad: [0x22; $pad] }
            }
            #[inline]
            fn raw(&self) -> u32 {
                unsafe { std::ptr::read_volatile(&self.id) as u32 }
            }
            fn rewrite(&mut self) -> u32 {
                let new = fresh_id($idw, IdState::Plain);
                unsafe { std::ptr::write_volatile(&mut self.id, new as $idty) };
                new
            }
        }
        impl PartialEq for $name {
            fn eq(&self, o: &Self) -> bool {
                callback(Cb::Cmp);
                self.raw() == o.raw()
            }
        }
        impl Eq for $name {}
        impl PartialOrd for $name {
            fn partial_cmp(&self, o: &Self) -> Option<Ordering> {
                callback(Cb::Cmp);
                self.raw().partial_cmp(&o.raw())
            }
        }
        impl Ord for $name {
            fn cmp(&self, o: &Self) -> Ordering {
                callback(Cb::Cmp);
                self.raw().cmp(&o.raw())
            }
        }
        impl Hash for $name {
            fn hash<H: Hasher>(&self, h: &mut H) {
                callback(Cb::Hash);
                self.raw().hash(h)
            }
        }
        impl std::fmt::Debug for $name {
            fn fmt(&self, f: &mut std::fmt::Formatter<'_>) -> std::fmt::Result {
                callback(Cb::Fmt);
                write!(f, "c{}", self.raw())
            }
        }
    };
}
plain_shape!(C1A1, u8, 1, 1, 0);
plain_shape!(C2A2, u16, 2, 2, 0);
plain_shape!(C4A4, u32, 4, 4, 0);
plain_shape!(C8A8, u32, 4, 8, 0);
plain_shape!(C16A16, u32, 4, 16, 0);

// ------------------------------------------------------------------------------------------
// the harness iterator

/// Iterator handed to triomphe's constructors. `items` are yielded front to back; what it
/// *reports* is configurable (honest, inexact, unknown, lying, changing between calls).
pub struct SimIter<E: Shape> {
    items: std::collections::VecDeque<E>,
    /// what len() answers on the 1st, 2nd, ... call (last entry repeats); None = honest
    len_script: Vec<usize>,
    len_calls: std::cell::Cell<usize>,
    /// size_hint regime: 0 exact(honest or per len_script), 1 lower<upper, 2 unknown
    hint: u8,
    hint_calls: std::cell::Cell<usize>,
    /// hint answers per call when lying about an exact hint
    hint_script: Vec<usize>,
}

impl<E: Shape> SimIter<E> {
    pub fn new(items: Vec<E>) -> Self {
        SimIter { items: items.into(), len_script: Vec::new(), len_calls: std::cell::Cell::new(0), hint: 0, hint_calls: std::cell::Cell::new(0), hint_script: Vec::new() }
    }
    pub fn with_len_script(mut self, s: Vec<usize>) -> Self {
        self.len_script = s;
        self
    }
    pub fn with_hint(mut self, regime: u8) -> Self {
        self.hint = regime;
        self
    }
    pub fn with_hint_script(mut self, s: Vec<usize>) -> Self {
        self.hint_script = s;
        self
    }
    pub fn remaining_ids(&self) -> Vec<u32> {
        self.items.iter().map(|e| e.raw()).collect()
    }
}

impl<E: Shape> Iterator for SimIter<E> {
    type Item = E;
    fn next(&mut self) -> Option<E> {
        callback(Cb::IterNext);
        self.items.pop_front()
    }
    fn size_hint(&self) -> (usize, Option<usize>) {
        callback(Cb::IterHint);
        let n = self.items.len();
        let calls = self.hint_calls.get();
        self.hint_calls.set(calls + 1);
        match self.hint {
            0 => {
                if self.hint_script.is_empty() {
                    (n, Some(n))
                } else {
                    let v = self.hint_script[calls.min(self.hint_script.len() - 1)];
                    (v, Some(v))
                }
            }
            1 => (n / 2, Some(n + 1)),
            _ => (0, None),
        }
    }
}
impl<E: Shape> ExactSizeIterator for SimIter<E> {
    fn len(&self) -> usize {
        callback(Cb::IterLen);
        let calls = self.len_calls.get();
        self.len_calls.set(calls + 1);
        if self.len_script.is_empty() {
            self.items.len()
        } else {
            self.len_script[calls.min(self.len_script.len() - 1)]
        }
    }
}

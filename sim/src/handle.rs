//! Handle slots: one enum over every kind of owning handle the simulator juggles, plus the
//! read-only "view" used by the per-step invariants.

use crate::family::Family;
use crate::shapes::Shape;
use std::ffi::c_void;
use std::mem::MaybeUninit;
use triomphe::{
    Arc, ArcUnion, ArcUnionBorrow, HeaderSlice, HeaderSliceWithLengthProtected, HeaderWithLength, OffsetArc, ThinArc,
    UniqueArc,
};

pub trait Probe: Send + Sync {
    fn probe_id(&self) -> u32;
}
/// A subtrait, so that one allocation can be reached through two trait-object pointers with
/// different vtables (direct cast vs. cast to the subtrait and upcast): same address, same
/// allocation, different metadata.
pub trait ProbeSub: Probe {}
impl<T: Probe> ProbeSub for T {}

/// Raw pointers are owners in transit; the simulator moves them between threads only through
/// the mailbox (which provides the happens-before edge), so they may be Send.
pub struct SendPtr<T: ?Sized>(pub *const T);
unsafe impl<T: ?Sized> Send for SendPtr<T> {}
unsafe impl<T: ?Sized> Sync for SendPtr<T> {}
impl<T: ?Sized> Clone for SendPtr<T> {
    fn clone(&self) -> Self {
        SendPtr(self.0)
    }
}
impl<T: ?Sized> Copy for SendPtr<T> {}

pub type HS<F> = HeaderSlice<<F as Family>::H, [<F as Family>::E]>;
pub type HSMu<F> = HeaderSlice<<F as Family>::H, [MaybeUninit<<F as Family>::E>]>;
pub type Fat<F> = HeaderSlice<HeaderWithLength<<F as Family>::H>, [<F as Family>::E]>;
pub type FatMu<F> = HeaderSlice<HeaderWithLength<<F as Family>::H>, [MaybeUninit<<F as Family>::E>]>;
pub type Prot<F> = HeaderSliceWithLengthProtected<<F as Family>::H, <F as Family>::E>;

pub enum Handle<F: Family> {
    // sized payload P
    ArcP(Arc<F::P>),
    OffP(OffsetArc<F::P>),
    RawP(SendPtr<F::P>),
    UniP(UniqueArc<F::P>),
    /// UniqueArc<P> unsized to a trait object (unsize feature)
    UniDynP(UniqueArc<dyn Probe>),
    ErasedP(Arc<HeaderSlice<(), F::P>>),
    DynP(Arc<dyn Probe>),
    RawDyn(SendPtr<dyn Probe>),
    UnionP(ArcUnion<F::P, F::Q>),
    #[cfg(feature = "cfg_a")]
    SwapP(arc_swap::ArcSwapAny<Arc<F::P>>),
    // sized payload Q
    ArcQ(Arc<F::Q>),
    UnionQ(ArcUnion<F::P, F::Q>),
    // MaybeUninit<P>
    MuP(Arc<MaybeUninit<F::P>>),
    UniMuP(UniqueArc<MaybeUninit<F::P>>),
    // HeaderSlice<H,[E]>
    Hs(Arc<HS<F>>),
    UniHs(UniqueArc<HS<F>>),
    UniHsMu(UniqueArc<HSMu<F>>),
    // [E]
    Sl(Arc<[F::E]>),
    SlE(Arc<HeaderSlice<(), [F::E]>>),
    RawSl(SendPtr<[F::E]>),
    UniSl(UniqueArc<[F::E]>),
    UniSlMu(UniqueArc<[MaybeUninit<F::E>]>),
    SlMu(Arc<[MaybeUninit<F::E>]>),
    // HeaderSlice<HeaderWithLength<H>,[E]>
    Fat(Arc<Fat<F>>),
    Prot(Arc<Prot<F>>),
    Thin(ThinArc<F::H, F::E>),
    RawThin(SendPtr<c_void>),
    UniFatMu(UniqueArc<FatMu<F>>),
    UniFat(UniqueArc<Fat<F>>),
    #[cfg(feature = "cfg_a")]
    SwapThin(arc_swap::ArcSwapAny<ThinArc<F::H, F::E>>),
    // str
    Str(Arc<str>),
    HStr(Arc<HeaderSlice<F::H, str>>),
    // a value moved out of an allocation
    ValP(F::P),
}

#[derive(Clone, Copy, Debug, PartialEq, Eq, Hash, PartialOrd, Ord)]
#[repr(u8)]
pub enum Kind {
    ArcP,
    OffP,
    RawP,
    UniP,
    ErasedP,
    DynP,
    RawDyn,
    UnionP,
    SwapP,
    ArcQ,
    UnionQ,
    MuP,
    UniMuP,
    Hs,
    UniHs,
    UniHsMu,
    Sl,
    SlE,
    RawSl,
    UniSl,
    UniSlMu,
    SlMu,
    Fat,
    Prot,
    Thin,
    RawThin,
    UniFatMu,
    UniFat,
    SwapThin,
    Str,
    HStr,
    ValP,
    UniDynP,
}
pub const NKINDS: usize = 33;
pub const KIND_NAMES: [&str; NKINDS] = [
    "Arc<P>", "OffsetArc<P>", "*const P", "UniqueArc<P>", "Arc<HeaderSlice<(),P>>", "Arc<dyn>", "*const dyn", "ArcUnion(first)",
    "ArcSwap<Arc<P>>", "Arc<Q>", "ArcUnion(second)", "Arc<MaybeUninit<P>>", "UniqueArc<MaybeUninit<P>>", "Arc<HeaderSlice<H,[E]>>",
    "UniqueArc<HeaderSlice<H,[E]>>", "UniqueArc<HeaderSlice<H,[MaybeUninit<E>]>>", "Arc<[E]>", "Arc<HeaderSlice<(),[E]>>",
    "*const [E]", "UniqueArc<[E]>", "UniqueArc<[MaybeUninit<E>]>", "Arc<[MaybeUninit<E>]>", "Arc<HeaderSlice<HeaderWithLength<H>,[E]>>",
    "Arc<HeaderSliceWithLengthProtected<H,E>>", "ThinArc<H,E>", "*const c_void(thin)", "UniqueArc<HeaderSlice<HeaderWithLength<H>,[MaybeUninit<E>]>>",
    "UniqueArc<HeaderSlice<HeaderWithLength<H>,[E]>>", "ArcSwap<ThinArc>", "Arc<str>", "Arc<HeaderSlice<H,str>>", "P(value)", "UniqueArc<dyn>",
];

impl<F: Family> Handle<F> {
    pub fn kind(&self) -> Kind {
        match self {
            Handle::ArcP(_) => Kind::ArcP,
            Handle::OffP(_) => Kind::OffP,
            Handle::RawP(_) => Kind::RawP,
            Handle::UniP(_) => Kind::UniP,
            Handle::UniDynP(_) => Kind::UniDynP,
            Handle::ErasedP(_) => Kind::ErasedP,
            Handle::DynP(_) => Kind::DynP,
            Handle::RawDyn(_) => Kind::RawDyn,
            Handle::UnionP(_) => Kind::UnionP,
            #[cfg(feature = "cfg_a")]
            Handle::SwapP(_) => Kind::SwapP,
            Handle::ArcQ(_) => Kind::ArcQ,
            Handle::UnionQ(_) => Kind::UnionQ,
            Handle::MuP(_) => Kind::MuP,
            Handle::UniMuP(_) => Kind::UniMuP,
            Handle::Hs(_) => Kind::Hs,
            Handle::UniHs(_) => Kind::UniHs,
            Handle::UniHsMu(_) => Kind::UniHsMu,
            Handle::Sl(_) => Kind::Sl,
            Handle::SlE(_) => Kind::SlE,
            Handle::RawSl(_) => Kind::RawSl,
            Handle::UniSl(_) => Kind::UniSl,
            Handle::UniSlMu(_) => Kind::UniSlMu,
            Handle::SlMu(_) => Kind::SlMu,
            Handle::Fat(_) => Kind::Fat,
            Handle::Prot(_) => Kind::Prot,
            Handle::Thin(_) => Kind::Thin,
            Handle::RawThin(_) => Kind::RawThin,
            Handle::UniFatMu(_) => Kind::UniFatMu,
            Handle::UniFat(_) => Kind::UniFat,
            #[cfg(feature = "cfg_a")]
            Handle::SwapThin(_) => Kind::SwapThin,
            Handle::Str(_) => Kind::Str,
            Handle::HStr(_) => Kind::HStr,
            Handle::ValP(_) => Kind::ValP,
        }
    }
}

/// What can be observed through a handle without changing anything.
#[derive(Default, Debug, Clone)]
pub struct View {
    /// block start as reported by heap_ptr()/ptr() (0 = this kind has no such accessor)
    pub heap: usize,
    /// address Deref yields (0 = not dereferenceable, e.g. raw pointers)
    pub data: usize,
    /// every pointer accessor that must equal `data`: (name, value)
    pub data_ptrs: Vec<(&'static str, usize)>,
    /// every pointer accessor that must equal the block start
    pub heap_ptrs: Vec<(&'static str, usize)>,
    pub val: Option<u32>,
    pub header: Option<u32>,
    /// recorded length (HeaderWithLength)
    pub hlen: Option<usize>,
    pub elems: Option<Vec<u32>>,
    /// raw ids of MaybeUninit slots (fill pattern for unwritten ones)
    pub mu_elems: Option<Vec<u32>>,
    pub mu_val: Option<u32>,
    pub s: Option<String>,
    pub counts: Vec<(&'static str, usize)>,
    /// address range of the slice elements [lo, hi)
    pub elem_range: Option<(usize, usize)>,
    /// address of the header
    pub header_addr: Option<usize>,
    /// union variant reported by accessors: Some(true)=first
    pub union_first: Option<(bool, bool, bool, bool)>,
}

fn rd<T: Shape>(t: &T) -> u32 {
    t.read()
}
fn rd_h<T: Shape>(t: &T) -> Option<u32> {
    if T::ZST {
        None
    } else {
        Some(t.read())
    }
}
/// A slice length obtained through a handle is data read from the allocation (thin handles) or
/// from the fat pointer: refuse to walk a slice whose length is a memory fill pattern or absurd.
pub fn sane_len(n: usize) {
    const FREED: usize = usize::from_ne_bytes([0xDD; 8]);
    const FRESH: usize = usize::from_ne_bytes([0xA5; 8]);
    if n == FREED {
        triomphe_verif_rt::violation("read-freed", "the slice length read through a handle is the freed-memory pattern".into());
    }
    if n == FRESH {
        triomphe_verif_rt::violation("read-uninit", "the slice length read through a handle is the never-written-memory pattern".into());
    }
    if n > (1 << 24) {
        triomphe_verif_rt::violation("length-mismatch", format!("the slice length read through a handle is {} (no such slice was ever created)", n));
    }
}
fn rd_elems<E: Shape>(s: &[E]) -> Vec<u32> {
    sane_len(s.len());
    s.iter().map(|e| if E::ZST { 0 } else { e.read() }).collect()
}
fn rd_mu<E: Shape>(s: &[MaybeUninit<E>]) -> Vec<u32> {
    sane_len(s.len());
    s.iter().map(|m| mu_raw(m)).collect()
}
/// Raw identity field of a possibly-uninitialised slot.
pub fn mu_raw<E: Shape>(m: &MaybeUninit<E>) -> u32 {
    if E::ZST {
        return 0;
    }
    let p = m.as_ptr() as *const u8;
    unsafe {
        match E::IDW {
            1 => std::ptr::read_volatile(p) as u32,
            2 => std::ptr::read_volatile(p as *const u16) as u32,
            _ => std::ptr::read_volatile(p as *const u32),
        }
    }
}
fn range<E>(s: &[E]) -> (usize, usize) {
    sane_len(s.len());
    let lo = s.as_ptr() as usize;
    (lo, lo + std::mem::size_of_val(s))
}
fn a<T: ?Sized>(p: *const T) -> usize {
    p as *const u8 as usize
}

fn arc_common<T: ?Sized>(v: &mut View, x: &Arc<T>, counts: bool) {
    v.heap = a(x.heap_ptr());
    v.heap_ptrs.push(("Arc::heap_ptr", v.heap));
    v.data = a(&**x as *const T);
    v.data_ptrs.push(("Arc::as_ptr", a(x.as_ptr())));
    v.data_ptrs.push(("Borrow::borrow", a(std::borrow::Borrow::<T>::borrow(x) as *const T)));
    v.data_ptrs.push(("AsRef::as_ref", a(AsRef::<T>::as_ref(x) as *const T)));
    if counts {
        v.counts.push(("Arc::count", Arc::count(x)));
        v.counts.push(("Arc::strong_count", Arc::strong_count(x)));
    }
}

fn arc_sized_extra<T>(v: &mut View, x: &Arc<T>, counts: bool) {
    let b = x.borrow_arc();
    v.data_ptrs.push(("ArcBorrow::get", a(b.get() as *const T)));
    v.data_ptrs.push(("ArcBorrow bits", unsafe { std::mem::transmute_copy::<_, usize>(&b) }));
    if counts {
        v.counts.push(("ArcBorrow::strong_count", triomphe::ArcBorrow::strong_count(&b)));
        v.counts.push(("ArcBorrow::with_arc count", b.with_arc(|t| Arc::count(t))));
        let (p, c) = x.with_raw_offset_arc(|o| (a(&**o as *const T), OffsetArc::strong_count(o)));
        v.data_ptrs.push(("with_raw_offset_arc deref", p));
        v.counts.push(("with_raw_offset_arc strong_count", c));
    }
}

impl<F: Family> Handle<F> {
    /// `deep`: read payload contents (reports Read accesses to the monitor).
    /// `counts`: call the count accessors (they perform atomic loads; not used while other
    /// simulated threads run, so that the harness never adds synchronisation).
    pub fn view(&self, deep: bool, counts: bool) -> View {
        let mut v = View::default();
        match self {
            Handle::ArcP(x) => {
                arc_common(&mut v, x, counts);
                arc_sized_extra(&mut v, x, counts);
                if deep {
                    v.val = Some(rd(&**x));
                }
            }
            Handle::ArcQ(x) => {
                arc_common(&mut v, x, counts);
                arc_sized_extra(&mut v, x, counts);
                if deep {
                    v.val = Some(rd(&**x));
                }
            }
            Handle::ErasedP(x) => {
                arc_common(&mut v, x, counts);
                arc_sized_extra(&mut v, x, counts);
                v.data_ptrs.push(("&.slice", a(&x.slice as *const F::P)));
                if deep {
                    v.val = Some(rd(&x.slice));
                }
            }
            Handle::OffP(x) => {
                v.data = a(&**x as *const F::P);
                v.data_ptrs.push(("OffsetArc bits", unsafe { std::mem::transmute_copy::<_, usize>(x) }));
                let b = x.borrow_arc();
                v.data_ptrs.push(("OffsetArc::borrow_arc bits", unsafe { std::mem::transmute_copy::<_, usize>(&b) }));
                if counts {
                    v.counts.push(("OffsetArc::strong_count", OffsetArc::strong_count(x)));
                    let (c, hp, dp) = x.with_arc(|t| (Arc::count(t), a(t.heap_ptr()), a(t.as_ptr())));
                    v.counts.push(("OffsetArc::with_arc count", c));
                    v.heap = hp;
                    v.heap_ptrs.push(("OffsetArc::with_arc heap_ptr", hp));
                    v.data_ptrs.push(("OffsetArc::with_arc as_ptr", dp));
                    v.counts.push(("OffsetArc::borrow_arc strong_count", triomphe::ArcBorrow::strong_count(&b)));
                }
                if deep {
                    v.val = Some(rd(&**x));
                }
            }
            Handle::RawP(p) => {
                v.data_ptrs.push(("into_raw", a(p.0)));
            }
            Handle::RawDyn(p) => {
                v.data_ptrs.push(("into_raw(dyn)", a(p.0)));
            }
            Handle::RawSl(p) => {
                v.data_ptrs.push(("into_raw(slice)", a(p.0)));
            }
            Handle::RawThin(p) => {
                v.heap_ptrs.push(("ThinArc::into_raw", a(p.0)));
            }
            Handle::UniP(x) => {
                v.data = a(&**x as *const F::P);
                if deep {
                    v.val = Some(rd(&**x));
                }
            }
            Handle::DynP(x) => {
                arc_common(&mut v, x, counts);
                if deep {
                    v.val = Some(x.probe_id());
                }
            }
            Handle::UniDynP(x) => {
                v.data = a(&**x as *const dyn Probe);
                if deep {
                    v.val = Some(x.probe_id());
                }
            }
            Handle::UnionP(u) | Handle::UnionQ(u) => {
                let isf = u.is_first();
                v.union_first = Some((isf, !u.is_second(), u.as_first().is_some(), u.as_second().is_none()));
                match u.borrow() {
                    ArcUnionBorrow::First(b) => {
                        v.data = a(b.get() as *const F::P);
                        v.data_ptrs.push(("ArcUnionBorrow::First bits", unsafe { std::mem::transmute_copy::<_, usize>(&b) }));
                        if deep {
                            v.val = Some(rd(b.get()));
                        }
                    }
                    ArcUnionBorrow::Second(b) => {
                        v.data = a(b.get() as *const F::Q);
                        v.data_ptrs.push(("ArcUnionBorrow::Second bits", unsafe { std::mem::transmute_copy::<_, usize>(&b) }));
                        if deep {
                            v.val = Some(rd(b.get()));
                        }
                    }
                }
                if counts {
                    v.counts.push(("ArcUnion::strong_count", ArcUnion::strong_count(u)));
                    v.counts.push(("ArcUnionBorrow::strong_count", ArcUnionBorrow::strong_count(&u.borrow())));
                }
            }
            #[cfg(feature = "cfg_a")]
            Handle::SwapP(s) => {
                let g = s.load();
                let x: &Arc<F::P> = &g;
                v.heap = a(x.heap_ptr());
                v.data = a(&**x as *const F::P);
                v.data_ptrs.push(("RefCnt::as_ptr", a(<Arc<F::P> as arc_swap::RefCnt>::as_ptr(x))));
                if counts {
                    v.counts.push(("Arc::count(via ArcSwap guard)", Arc::count(x)));
                }
                if deep {
                    v.val = Some(rd(&**x));
                }
            }
            Handle::MuP(x) => {
                arc_common(&mut v, x, counts);
                if deep {
                    v.mu_val = Some(mu_raw(&**x));
                }
            }
            Handle::UniMuP(x) => {
                v.data = a(&**x as *const MaybeUninit<F::P>);
                if deep {
                    v.mu_val = Some(mu_raw(&**x));
                }
            }
            Handle::Hs(x) => {
                arc_common(&mut v, x, counts);
                v.header_addr = Some(a(&x.header as *const F::H));
                v.elem_range = Some(range(&x.slice));
                if deep {
                    v.header = rd_h(&x.header);
                    v.elems = Some(rd_elems(&x.slice));
                }
            }
            Handle::UniHs(x) => {
                v.data = a(&**x as *const HS<F>);
                v.header_addr = Some(a(&x.header as *const F::H));
                v.elem_range = Some(range(&x.slice));
                if deep {
                    v.header = rd_h(&x.header);
                    v.elems = Some(rd_elems(&x.slice));
                }
            }
            Handle::UniHsMu(x) => {
                v.data = a(&**x as *const HSMu<F>);
                v.header_addr = Some(a(&x.header as *const F::H));
                v.elem_range = Some(range(&x.slice));
                if deep {
                    v.header = rd_h(&x.header);
                    v.mu_elems = Some(rd_mu(&x.slice));
                }
            }
            Handle::Sl(x) => {
                arc_common(&mut v, x, counts);
                v.elem_range = Some(range(&**x));
                if deep {
                    v.elems = Some(rd_elems(&**x));
                }
            }
            Handle::SlE(x) => {
                arc_common(&mut v, x, counts);
                v.elem_range = Some(range(&x.slice));
                if deep {
                    v.elems = Some(rd_elems(&x.slice));
                }
            }
            Handle::UniSl(x) => {
                v.data = a(&**x as *const [F::E]);
                v.elem_range = Some(range(&**x));
                if deep {
                    v.elems = Some(rd_elems(&**x));
                }
            }
            Handle::UniSlMu(x) => {
                v.data = a(&**x as *const [MaybeUninit<F::E>]);
                v.elem_range = Some(range(&**x));
                if deep {
                    v.mu_elems = Some(rd_mu(&**x));
                }
            }
            Handle::SlMu(x) => {
                arc_common(&mut v, x, counts);
                v.elem_range = Some(range(&**x));
                if deep {
                    v.mu_elems = Some(rd_mu(&**x));
                }
            }
            Handle::Fat(x) => {
                arc_common(&mut v, x, counts);
                v.header_addr = Some(a(&x.header.header as *const F::H));
                v.elem_range = Some(range(&x.slice));
                v.hlen = Some(x.header.length);
                if deep {
                    v.header = rd_h(&x.header.header);
                    v.elems = Some(rd_elems(&x.slice));
                }
            }
            Handle::Prot(x) => {
                arc_common(&mut v, x, counts);
                v.header_addr = Some(a(x.header() as *const F::H));
                v.elem_range = Some(range(x.slice()));
                v.hlen = Some(x.length());
                if deep {
                    v.header = rd_h(x.header());
                    v.elems = Some(rd_elems(x.slice()));
                }
            }
            Handle::UniFat(x) => {
                v.data = a(&**x as *const Fat<F>);
                v.header_addr = Some(a(&x.header.header as *const F::H));
                v.elem_range = Some(range(&x.slice));
                v.hlen = Some(x.header.length);
                if deep {
                    v.header = rd_h(&x.header.header);
                    v.elems = Some(rd_elems(&x.slice));
                }
            }
            Handle::UniFatMu(x) => {
                v.data = a(&**x as *const FatMu<F>);
                v.header_addr = Some(a(&x.header.header as *const F::H));
                v.elem_range = Some(range(&x.slice));
                v.hlen = Some(x.header.length);
                if deep {
                    v.header = rd_h(&x.header.header);
                    v.mu_elems = Some(rd_mu(&x.slice));
                }
            }
            Handle::Thin(x) => {
                v.heap = a(x.heap_ptr());
                v.heap_ptrs.push(("ThinArc::heap_ptr", a(x.heap_ptr())));
                v.heap_ptrs.push(("ThinArc::ptr", a(x.ptr())));
                v.heap_ptrs.push(("ThinArc::as_ptr", a(x.as_ptr())));
                v.heap_ptrs.push(("ThinArc bits", unsafe { std::mem::transmute_copy::<_, usize>(x) }));
                #[cfg(feature = "cfg_a")]
                v.heap_ptrs.push(("RefCnt::as_ptr(thin)", a(<ThinArc<F::H, F::E> as arc_swap::RefCnt>::as_ptr(x))));
                let d: &Fat<F> = &**x;
                v.data = a(d as *const Fat<F>);
                v.header_addr = Some(a(&d.header.header as *const F::H));
                v.elem_range = Some(range(&d.slice));
                v.hlen = Some(d.header.length);
                if counts {
                    v.counts.push(("ThinArc::strong_count", ThinArc::strong_count(x)));
                    // the same allocation seen through the fat Arc lent by with_arc
                    let (c, hp, dp, ha, er, sl) = x.with_arc(|t| {
                        (
                            Arc::count(t),
                            a(t.heap_ptr()),
                            a(t.as_ptr()),
                            a(&t.header.header as *const F::H),
                            range(&t.slice),
                            t.slice.len(),
                        )
                    });
                    v.counts.push(("ThinArc::with_arc count", c));
                    v.heap_ptrs.push(("ThinArc::with_arc heap_ptr", hp));
                    v.data_ptrs.push(("ThinArc::with_arc as_ptr", dp));
                    v.data_ptrs.push(("ThinArc::with_arc header addr - via thin", ha + v.data - v.header_addr.unwrap()));
                    if er != v.elem_range.unwrap() || sl != d.slice.len() {
                        triomphe_verif_rt::violation(
                            "thin-fat-mismatch",
                            format!(
                                "ThinArc deref slice range {:?} len {} differs from the fat Arc's {:?} len {}",
                                v.elem_range.unwrap(), d.slice.len(), er, sl
                            ),
                        );
                    }
                }
                if deep {
                    v.header = rd_h(&d.header.header);
                    v.elems = Some(rd_elems(&d.slice));
                }
            }
            #[cfg(feature = "cfg_a")]
            Handle::SwapThin(s) => {
                let g = s.load();
                let x: &ThinArc<F::H, F::E> = &g;
                v.heap = a(x.heap_ptr());
                let d: &Fat<F> = &**x;
                v.data = a(d as *const Fat<F>);
                v.hlen = Some(d.header.length);
                v.elem_range = Some(range(&d.slice));
                if counts {
                    v.counts.push(("ThinArc::strong_count(via ArcSwap guard)", ThinArc::strong_count(x)));
                }
                if deep {
                    v.header = rd_h(&d.header.header);
                    v.elems = Some(rd_elems(&d.slice));
                }
            }
            Handle::Str(x) => {
                arc_common(&mut v, x, counts);
                if deep {
                    sane_len(x.len());
                    v.s = Some((**x).to_string());
                }
            }
            Handle::HStr(x) => {
                arc_common(&mut v, x, counts);
                v.header_addr = Some(a(&x.header as *const F::H));
                if deep {
                    v.header = rd_h(&x.header);
                    sane_len(x.slice.len());
                    v.s = Some(x.slice.to_string());
                }
            }
            Handle::ValP(p) => {
                if deep {
                    v.val = Some(rd(p));
                }
            }
        }
        v
    }
}

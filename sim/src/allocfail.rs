//! C07 (allocation failure): the child arms the ledger to return null at the n-th tracked
//! allocation performed inside one library call. The parent observes how the process ends:
//! the allocation-error path (SIGABRT), never a write through null (SIGSEGV) or a normal return.

use crate::family::{Family, F0, F3, F7};
use crate::shapes::{Shape, SimIter};
use std::io::Write;
use std::mem::MaybeUninit;
use triomphe::{Arc, HeaderSlice, HeaderWithLength, ThinArc, UniqueArc};
use triomphe_verif_rt::ledger;

pub const CTORS: &[&str] = &[
    "arc_new",
    "arc_new_overaligned",
    "arc_from_box",
    "arc_default",
    "unique_new",
    "unique_new_uninit",
    "arc_new_uninit",
    "new_uninit_slice",
    "unique_new_uninit_slice",
    "from_header_and_uninit_slice",
    "from_header_and_iter",
    "from_header_and_slice",
    "from_header_and_vec",
    "from_vec",
    "from_slice",
    "from_iter_exact",
    "from_iter_unknown",
    "from_str",
    "from_string",
    "from_header_and_str",
    "thin_from_iter",
    "thin_from_slice",
    "make_mut_shared",
    "make_unique_shared",
    "offset_make_mut_shared",
];

fn say(s: &str) {
    let o = std::io::stdout();
    let mut o = o.lock();
    let _ = writeln!(o, "{}", s);
    let _ = o.flush();
}

pub fn child(ctor: &str, n: i64) -> i32 {
    type P = <F0 as Family>::P;
    type PO = <F3 as Family>::P;
    type H = <F0 as Family>::H;
    type E = <F0 as Family>::E;
    type C = <F7 as Family>::E;
    // inputs are built before the fault is armed
    let items = |k: usize| -> Vec<E> { (0..k).map(|_| E::fresh()).collect() };
    let citems = |k: usize| -> Vec<C> { (0..k).map(|_| C::fresh()).collect() };
    macro_rules! go {
        ($prep:expr, $call:expr) => {{
            let input = $prep;
            say("ENTER");
            ledger::set_track(true);
            ledger::arm_failure(n);
            let out = $call(input);
            ledger::set_track(false);
            let mut fired = false;
            for i in 0..ledger::event_count() {
                if ledger::event_at(i).kind == ledger::EV_FAIL {
                    fired = true;
                }
            }
            say(&format!("RETURNED fired={}", fired));
            std::mem::forget(out);
            0
        }};
    }
    match ctor {
        "arc_new" => go!(P::fresh(), |p| Arc::new(p)),
        "arc_new_overaligned" => go!(PO::fresh(), |p| Arc::new(p)),
        "arc_from_box" => go!(Box::new(P::fresh()), |b: Box<P>| Arc::<P>::from(b)),
        "arc_default" => go!((), |_| Arc::<P>::default()),
        "unique_new" => go!(P::fresh(), |p| UniqueArc::new(p)),
        "unique_new_uninit" => go!((), |_| UniqueArc::<P>::new_uninit()),
        "arc_new_uninit" => go!((), |_| Arc::<MaybeUninit<P>>::new_uninit()),
        "new_uninit_slice" => go!((), |_| Arc::<[MaybeUninit<E>]>::new_uninit_slice(5)),
        "unique_new_uninit_slice" => go!((), |_| UniqueArc::<[MaybeUninit<E>]>::new_uninit_slice(5)),
        "from_header_and_uninit_slice" => go!(H::fresh(), |h| UniqueArc::<HeaderSlice<H, [MaybeUninit<E>]>>::from_header_and_uninit_slice(h, 4)),
        "from_header_and_iter" => go!((H::fresh(), SimIter::new(items(3))), |(h, it)| Arc::from_header_and_iter(h, it)),
        "from_header_and_slice" => go!((H::fresh(), citems(3)), |(h, v): (H, Vec<C>)| Arc::from_header_and_slice(h, &v)),
        "from_header_and_vec" => go!((H::fresh(), items(3)), |(h, v)| Arc::from_header_and_vec(h, v)),
        "from_vec" => go!(items(3), |v: Vec<E>| Arc::<[E]>::from(v)),
        "from_slice" => go!(citems(3), |v: Vec<C>| Arc::<[C]>::from(&v[..])),
        "from_iter_exact" => go!(SimIter::new(items(3)), |it: SimIter<E>| it.collect::<Arc<[E]>>()),
        "from_iter_unknown" => go!(SimIter::new(items(5)).with_hint(2), |it: SimIter<E>| it.collect::<Arc<[E]>>()),
        "from_str" => go!("allocation failure", |s: &str| Arc::<str>::from(s)),
        "from_string" => go!(String::from("allocation failure"), |s: String| Arc::<str>::from(s)),
        "from_header_and_str" => go!(H::fresh(), |h| Arc::from_header_and_str(h, "allocation failure")),
        "thin_from_iter" => go!((H::fresh(), SimIter::new(items(3))), |(h, it)| ThinArc::from_header_and_iter(h, it)),
        "thin_from_slice" => go!((H::fresh(), citems(3)), |(h, v): (H, Vec<C>)| ThinArc::from_header_and_slice(h, &v)),
        "make_mut_shared" => go!(
            {
                let a = Arc::new(P::fresh());
                (a.clone(), a)
            },
            |(mut a, b): (Arc<P>, Arc<P>)| {
                let _ = Arc::make_mut(&mut a);
                (a, b)
            }
        ),
        "make_unique_shared" => go!(
            {
                let a = Arc::new(P::fresh());
                (a.clone(), a)
            },
            |(mut a, b): (Arc<P>, Arc<P>)| {
                let _ = Arc::make_unique(&mut a);
                (a, b)
            }
        ),
        "offset_make_mut_shared" => go!(
            {
                let a = Arc::new(P::fresh());
                (Arc::into_raw_offset(a.clone()), a)
            },
            |(mut a, b): (triomphe::OffsetArc<P>, Arc<P>)| {
                let _ = a.make_mut();
                (a, b)
            }
        ),
        _ => {
            let _ = HeaderWithLength::new(0u8, 0);
            say("HARNESS-ERROR unknown constructor");
            2
        }
    }
}

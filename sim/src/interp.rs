//! The operation interpreter: executes one `Op` against real triomphe handles, updates the
//! reference model from the op's specified effect, and checks every observable side effect
//! (destructor events, allocator events, counter deltas, contents, addresses, counts).

use crate::family::Family;
use crate::handle::*;
use crate::model::*;
use crate::ops::*;
use crate::probes;
use crate::shapes::*;
use std::collections::VecDeque;
use std::sync::Mutex;
use triomphe_verif_rt::ledger::{self, NoTrack, EV_ALLOC, EV_DEALLOC, ST_LIVE};
use triomphe_verif_rt::sim::{self, VC};
use triomphe_verif_rt::violation;

pub struct Slot<F: Family> {
    pub h: Handle<F>,
    pub ai: usize,
}
pub const NOAI: usize = usize::MAX;

pub struct Env<F: Family> {
    pub model: Mutex<Model>,
    pub mail: Mutex<Vec<VecDeque<(Slot<F>, VC)>>>,
    /// Miri / pass-through mode: no fill-pattern based checks
    pub passthrough: bool,
}

impl<F: Family> Env<F> {
    pub fn new(passthrough: bool) -> Self {
        Env {
            model: Mutex::new(Model::new()),
            mail: Mutex::new((0..NMAIL).map(|_| VecDeque::new()).collect()),
            passthrough,
        }
    }
    pub fn m<R>(&self, f: impl FnOnce(&mut Model) -> R) -> R {
        let mut g = self.model.lock().unwrap_or_else(|e| e.into_inner());
        f(&mut g)
    }
}

/// What the op is specified to do to the observable world.
#[derive(Default, Debug)]
pub struct Exp {
    pub drops: Vec<u32>,
    pub zst_drops: usize,
    pub freed: Vec<u32>,
    /// parallel sections: allocations this op released an owner of (it may or may not be the
    /// one that destroys them)
    pub maybe: Vec<usize>,
    pub deltas: Vec<(u32, i64)>,
    /// (min, max) number of Clone::clone calls on the payload
    pub clones: Option<(usize, usize)>,
    pub new_live: usize,
    /// the op is a constructor that unwound: (input identities, zero-sized inputs, leak tolerated)
    pub unwound: Option<(Vec<u32>, usize, bool)>,
    /// no atomic RMW at all may happen (count-neutral conversions, borrows)
    pub no_rmw: bool,
    /// no allocator traffic at all may happen
    pub no_alloc: bool,
    /// zero-sized drops are not checked exactly (unwound constructors)
    pub zst_loose: bool,
}
impl Exp {
    pub fn delta(&mut self, block: u32, d: i64) {
        match self.deltas.iter_mut().find(|x| x.0 == block) {
            Some(x) => x.1 += d,
            None => self.deltas.push((block, d)),
        }
    }
}

pub enum Outcome {
    Skipped,
    Done(Exp),
}
pub use Outcome::*;

pub struct Cx<'a, F: Family> {
    pub slots: &'a mut [Option<Slot<F>>],
    /// read-only slots shared by all threads of the parallel section (empty elsewhere)
    pub shared: &'a [Option<Slot<F>>],
    pub base: usize,
    pub env: &'a Env<F>,
    pub par: bool,
    pub t: usize,
    pub mark: usize,
    /// slots touched by the op (checked afterwards in parallel sections)
    pub touched: Vec<u32>,
}

pub fn is_injected(p: &Box<dyn std::any::Any + Send>) -> Option<(Cb, u32)> {
    p.downcast_ref::<InjectedPanic>().map(|i| (i.0, i.1))
}
pub fn panic_msg(p: &Box<dyn std::any::Any + Send>) -> String {
    if let Some(s) = p.downcast_ref::<&'static str>() {
        s.to_string()
    } else if let Some(s) = p.downcast_ref::<String>() {
        s.clone()
    } else if let Some(i) = p.downcast_ref::<InjectedPanic>() {
        format!("<injected panic at {} #{}>", CB_NAMES[i.0 as usize], i.1)
    } else {
        "<non-string panic>".into()
    }
}

/// Run workload code with tracking on, catching unwinding.
pub fn guarded<R>(f: impl FnOnce() -> R) -> Result<R, Box<dyn std::any::Any + Send>> {
    let prev = ledger::set_track(true);
    let r = std::panic::catch_unwind(std::panic::AssertUnwindSafe(f));
    ledger::set_track(prev);
    r
}
/// Run code whose own allocations are not part of the ledger (arc-swap internals).
pub fn untracked<R>(f: impl FnOnce() -> R) -> R {
    let prev = ledger::set_track(false);
    let r = f();
    ledger::set_track(prev);
    r
}
/// Run workload code with tracking on (must not panic).
pub fn tracked<R>(f: impl FnOnce() -> R) -> R {
    let prev = ledger::set_track(true);
    let r = f();
    ledger::set_track(prev);
    r
}

impl<'a, F: Family> Cx<'a, F> {
    pub fn in_range(&self, g: u32) -> bool {
        let g = g as usize;
        g >= self.base && g < self.base + self.slots.len()
    }
    pub fn has(&self, g: u32) -> bool {
        self.in_range(g) && self.slots[g as usize - self.base].is_some()
    }
    pub fn free(&self, g: u32) -> bool {
        self.in_range(g) && self.slots[g as usize - self.base].is_none()
    }
    pub fn kind(&self, g: u32) -> Option<Kind> {
        if self.has(g) {
            Some(self.slots[g as usize - self.base].as_ref().unwrap().h.kind())
        } else {
            None
        }
    }
    pub fn is(&self, g: u32, k: Kind) -> bool {
        self.kind(g) == Some(k)
    }
    pub fn take(&mut self, g: u32) -> Slot<F> {
        self.touched.push(g);
        self.slots[g as usize - self.base].take().unwrap()
    }
    pub fn put(&mut self, g: u32, s: Slot<F>) {
        self.touched.push(g);
        debug_assert!(self.slots[g as usize - self.base].is_none());
        self.slots[g as usize - self.base] = Some(s);
    }
    pub fn slot(&mut self, g: u32) -> &mut Slot<F> {
        self.touched.push(g);
        self.slots[g as usize - self.base].as_mut().unwrap()
    }
    pub fn ai(&self, g: u32) -> usize {
        self.slots[g as usize - self.base].as_ref().unwrap().ai
    }

    /// The one block allocated since the op began that is still live and unknown to the model:
    /// the new allocation. Verifies its layout against the independent formula.
    pub fn adopt(&self, class: Class, n: usize, what: &str) -> (u32, usize, usize) {
        let mut found: Option<ledger::Block> = None;
        let cnt = ledger::event_count();
        let known: Vec<u32> = self.env.m(|m| m.allocs.iter().map(|a| a.block).collect());
        for i in self.mark..cnt {
            let e = ledger::event_at(i);
            if e.kind == EV_ALLOC && e.tid as usize == self.t {
                let b = ledger::block(e.block);
                if b.state == ST_LIVE && !known.contains(&b.id) {
                    if found.is_some() {
                        violation(
                            "leak:extra-block",
                            format!("{}: more than one new block is still allocated after the constructor returned", what),
                        );
                    }
                    found = Some(b);
                }
            }
        }
        let b = match found {
            Some(b) => b,
            None => violation("no-allocation", format!("{}: the constructor returned but no new block is live", what)),
        };
        // "large and aligned enough for the reference count plus the payload" (over-allocation is legal)
        let (size, align, off) = expected_layout::<F>(class, n);
        if b.size < size || b.align < align || b.align % align != 0 {
            violation(
                "layout:alloc",
                format!(
                    "{} (len {}): requested block size {} align {}, but counter+payload need at least size {} align {} ({})",
                    what, n, b.size, b.align, size, align, F::NAME
                ),
            );
        }
        (b.id, b.ptr, off)
    }

    pub fn new_alloc(&self, class: Class, n: usize, what: &str) -> AllocM {
        let (block, ptr, off) = self.adopt(class, n, what);
        AllocM {
            class,
            block,
            ptr,
            data_off: off,
            owners: 1,
            val: None,
            header: None,
            elems: Vec::new(),
            written: Vec::new(),
            nelems: n,
            hlen: None,
            s: None,
            uninit: false,
            dead: false,
            leaked: false,
            zst_hdr: false,
            zst_body: 0,
            created_by: self.t as u8,
            elems_tracked: F::E::TRACKED,
            off_seen: false,
            observed: Vec::new(),
            fams: 0,
            val_tracked: match class {
                Class::Q => F::Q::TRACKED,
                _ => F::P::TRACKED,
            },
            hdr_tracked: F::H::TRACKED,
        }
    }
    pub fn push_alloc(&self, a: AllocM) -> usize {
        self.env.m(|m| {
            m.allocs.push(a);
            m.allocs.len() - 1
        })
    }
    pub fn add_owner(&self, ai: usize, exp: &mut Exp) {
        self.env.m(|m| {
            m.allocs[ai].owners += 1;
            exp.delta(m.allocs[ai].block, 1);
        })
    }
    /// One owning handle to `ai` is about to be released.
    pub fn release(&self, ai: usize, exp: &mut Exp) {
        let par = self.par;
        self.env.m(|m| {
            m.allocs[ai].owners -= 1;
            let block = m.allocs[ai].block;
            exp.delta(block, -1);
            if par {
                exp.maybe.push(ai);
            } else if m.allocs[ai].owners == 0 {
                let (ids, z) = m.destroy_set(ai);
                exp.drops.extend(ids);
                exp.zst_drops += z;
                exp.freed.push(block);
                m.allocs[ai].dead = true;
            }
        })
    }
    /// The allocation goes away without its payload destructor running here (value moved out).
    pub fn release_moved_out(&self, ai: usize, exp: &mut Exp) {
        self.env.m(|m| {
            m.allocs[ai].owners -= 1;
            exp.freed.push(m.allocs[ai].block);
            m.allocs[ai].dead = true;
        })
    }
    pub fn owners(&self, ai: usize) -> i32 {
        self.env.m(|m| m.allocs[ai].owners)
    }
}

// ------------------------------------------------------------------------------------------
// executing one op with pre/post checks

pub struct OpReport {
    pub skipped: bool,
}

pub fn exec_op<F: Family>(
    slots: &mut [Option<Slot<F>>],
    shared: &[Option<Slot<F>>],
    base: usize,
    env: &Env<F>,
    par: bool,
    t: usize,
    op: &Op,
    all_slots_for_check: bool,
) -> OpReport {
    let _nt = NoTrack::new();
    if par {
        sim::sched_point();
    }
    let mark = ledger::event_count();
    let _ = take_events();
    sim::op_begin();
    sim::note(1, op.code as u64, ((op.a as u64) << 32) | ((op.b as u64) << 16) | op.c as u64);
    sim::note_str(|| format!("op {}", op.text()));
    crate::context::set_op(t, *op);
    // attribution context: the life story (op families) of the allocations this op is about
    let opf = crate::context::fam_mask(op.code.families());
    let mut ctx_f = opf;
    for g in [op.a, op.b] {
        let gi = g as usize;
        if gi >= base && gi < base + slots.len() {
            if let Some(s) = slots[gi - base].as_ref() {
                if s.ai != NOAI {
                    ctx_f |= env.m(|m| m.allocs.get(s.ai).map(|a| a.fams).unwrap_or(0));
                }
            }
        }
    }
    crate::context::set_fams(t, ctx_f);
    let mut cx = Cx { slots, shared, base, env, par, t, mark, touched: Vec::new() };
    let out = crate::exec::dispatch(&mut cx, op);
    let touched = std::mem::take(&mut cx.touched);
    if opf != 0 {
        for &g in &touched {
            let gi = g as usize;
            if gi >= base && gi < base + cx.slots.len() {
                if let Some(s) = cx.slots[gi - base].as_ref() {
                    if s.ai != NOAI {
                        env.m(|m| {
                            if let Some(a) = m.allocs.get_mut(s.ai) {
                                a.fams |= opf;
                            }
                        });
                        crate::context::add_fams(t, env.m(|m| m.allocs.get(s.ai).map(|a| a.fams).unwrap_or(0)));
                    }
                }
            }
        }
    }
    let exp = match out {
        Skipped => {
            probes::hit(probes::P_OP_SKIPPED);
            return OpReport { skipped: true };
        }
        Done(e) => e,
    };
    probes::op_done(op.code);
    post_check(env, par, t, mark, op, exp);
    if all_slots_for_check && !par {
        check_all(slots, base, env, op);
    } else {
        for g in touched {
            let i = g as usize - base;
            if let Some(s) = slots[i].as_ref() {
                check_slot(s, env, !par, op, g);
            }
        }
    }
    // inspection has no side effects: no destructor may have run while the handles were only read
    let ev2 = take_events();
    if !ev2.drops.is_empty() || ev2.zst_drops > 0 {
        violation(
            "early-drop",
            format!("after `{}`: merely inspecting live handles (Deref, pointer and count accessors) ran destructor(s) {:?}", op.text(), ev2.drops),
        );
    }
    OpReport { skipped: false }
}

fn post_check<F: Family>(env: &Env<F>, par: bool, t: usize, mark: usize, op: &Op, mut exp: Exp) {
    let evs = take_events();
    let at = sim::op_end();
    let what = op.text();

    // ---- allocator events
    let cnt = ledger::event_count();
    let mut allocated: Vec<u32> = Vec::new();
    let mut freed: Vec<u32> = Vec::new();
    for i in mark..cnt {
        let e = ledger::event_at(i);
        if e.tid as usize != t {
            continue; // another simulated thread's allocator traffic
        }
        match e.kind {
            EV_ALLOC => allocated.push(e.block),
            EV_DEALLOC => freed.push(e.block),
            _ => {}
        }
    }
    // (no property forbids temporaries: `no_alloc` is informational; new live blocks and frees of
    // model-known blocks are checked below for every op)
    let _ = exp.no_alloc;

    // parallel sections: did this op destroy any of the allocations it released an owner of?
    let mut drops_exp = std::mem::take(&mut exp.drops);
    let mut zst_exp = exp.zst_drops;
    let mut zst_maybe = 0usize;
    for &ai in &exp.maybe {
        let (ids, z, block, owners, dead) = env.m(|m| {
            let (ids, z) = m.destroy_set(ai);
            (ids, z, m.allocs[ai].block, m.allocs[ai].owners, m.allocs[ai].dead)
        });
        let destroyed_here = freed.contains(&block) || ids.iter().any(|i| evs.drops.contains(i));
        if destroyed_here {
            if owners != 0 || dead {
                violation(
                    "early-drop",
                    format!(
                        "`{}` destroyed allocation b{} although the model still counts {} owner(s){}",
                        what, block, owners, if dead { " (already destroyed once)" } else { "" }
                    ),
                );
            }
            env.m(|m| m.allocs[ai].dead = true);
            drops_exp.extend(ids);
            zst_exp += z;
            exp.freed.push(block);
            probes::hit(probes::P_PAR_DESTROY);
        } else {
            zst_maybe += z;
        }
    }
    let _ = zst_maybe;

    // ---- unwound constructor: every input is destroyed once or part of the documented leak
    let mut leak_blocks = 0usize;
    if let Some((inputs, zin, leak_ok)) = exp.unwound.take() {
        let new_live: Vec<u32> = allocated.iter().copied().filter(|b| ledger::block(*b).state == ST_LIVE).collect();
        if new_live.len() > 1 || (!new_live.is_empty() && !leak_ok) {
            violation(
                "leak:block",
                format!(
                    "`{}` unwound and left {} block(s) allocated ({}leak of one half-built allocation is the only tolerated loss here)",
                    what, new_live.len(), if leak_ok { "" } else { "no leak is specified for this failure; " }
                ),
            );
        }
        leak_blocks = new_live.len();
        for id in inputs {
            if evs.drops.contains(&id) {
                drops_exp.push(id);
            } else if leak_blocks == 1 {
                mark_forgotten(id);
                probes::hit(probes::P_DOC_LEAK_ID);
            } else {
                violation(
                    "leak:identity",
                    format!("`{}` unwound: payload #{} was neither destroyed nor left in a (documented) half-built allocation", what, id),
                );
            }
        }
        if leak_blocks == 1 {
            probes::hit(probes::P_DOC_LEAK);
            let b = ledger::block(new_live[0]);
            env.m(|m| {
                m.allocs.push(AllocM {
                    class: Class::Hs,
                    block: b.id,
                    ptr: b.ptr,
                    data_off: 0,
                    owners: 0,
                    val: None,
                    header: None,
                    elems: vec![],
                    written: vec![],
                    nelems: 0,
                    hlen: None,
                    s: None,
                    uninit: false,
                    dead: false,
                    leaked: true,
                    zst_hdr: false,
                    zst_body: 0,
                    created_by: 0,
                    elems_tracked: false,
                    off_seen: true,
                    observed: Vec::new(),
                    fams: 0,
                    val_tracked: false,
                    hdr_tracked: false,
                })
            });
        }
        // zero-sized inputs cannot be told apart: count them
        let zd = evs.zst_drops as usize;
        if zd > zin + zst_exp {
            violation("early-drop", format!("`{}` unwound: {} zero-sized destructor(s) ran but only {} zero-sized value(s) were passed in", what, zd, zin));
        }
        let missing = (zin + zst_exp) as i64 - zd as i64;
        if missing > 0 {
            if leak_blocks == 1 {
                env.m(|m| m.forgotten_zst += missing);
            } else {
                violation("leak:identity", format!("`{}` unwound: {} zero-sized value(s) were neither destroyed nor left in a documented half-built allocation", what, missing));
            }
        }
        exp.zst_loose = true;
    }

    // frees
    for b in &freed {
        if allocated.contains(b) {
            continue; // temporary of this op (source container, iterator buffer, panic payload)
        }
        if !exp.freed.contains(b) {
            violation(
                "unexpected-free",
                format!("`{}` released block b{} which still has owners / is not specified to go away here", what, b),
            );
        }
    }
    for b in &exp.freed {
        if !freed.contains(b) {
            note_blocks(env, &[*b]);
            violation(
                "leak:not-freed",
                format!("`{}` released the last owner of block b{} but its memory was not returned", what, b),
            );
        }
    }
    // new live blocks
    let new_live = allocated.iter().filter(|b| ledger::block(**b).state == ST_LIVE).count();
    if new_live != exp.new_live + leak_blocks {
        violation(
            if new_live > exp.new_live + leak_blocks { "leak:block" } else { "missing-allocation" },
            format!("`{}` left {} new block(s) allocated, specified: {}", what, new_live, exp.new_live + leak_blocks),
        );
    }

    // ---- destructor events
    // identities the library created *and* destroyed inside this op are its own temporaries
    let mut got: Vec<u32> = evs.drops.iter().copied().filter(|d| drops_exp.contains(d) || !evs.created.contains(d)).collect();
    got.sort_unstable();
    drops_exp.sort_unstable();
    if got != drops_exp {
        for g in &got {
            if !drops_exp.contains(g) {
                violation(
                    "early-drop",
                    format!("`{}` destroyed payload #{} which is still owned / not specified to be destroyed here", what, g),
                );
            }
        }
        for e in &drops_exp {
            if !got.contains(e) {
                violation(
                    "missing-drop",
                    format!("`{}` released the last owner but payload #{} was not destroyed", what, e),
                );
            }
        }
        violation("drop-multiset", format!("`{}`: destructor events {:?} differ from specified {:?}", what, got, drops_exp));
    }
    if !exp.zst_loose && !par && evs.zst_drops as usize != zst_exp {
        violation(
            if (evs.zst_drops as usize) > zst_exp { "early-drop" } else { "missing-drop" },
            format!("`{}`: {} zero-sized payload destructor(s) ran, specified {}", what, evs.zst_drops, zst_exp),
        );
    }

    // ---- counter deltas by this thread
    for (block, d) in &at.deltas {
        if freed.contains(block) {
            // the allocation went away in this op: what its counter word held at the very end is
            // unobservable (a unique-owner fast path may legitimately skip the last decrement)
            continue;
        }
        let e = exp.deltas.iter().find(|x| x.0 == *block).map(|x| x.1).unwrap_or(0);
        if *d != e {
            triomphe_verif_rt::count_violation(
                "count-drift",
                format!("`{}` changed the reference count of block b{} by {} (specified {})", what, block, d, e),
            );
        }
    }
    for (block, e) in &exp.deltas {
        if freed.contains(block) {
            continue;
        }
        if *e != 0 && !at.deltas.iter().any(|x| x.0 == *block) {
            triomphe_verif_rt::count_violation(
                "count-drift",
                format!("`{}` did not change the reference count of block b{} (specified {})", what, block, e),
            );
        }
    }
    if exp.no_rmw && at.rmws != 0 {
        triomphe_verif_rt::count_violation(
            "count-touched",
            format!("`{}` is count-neutral but performed {} read-modify-write(s) on a reference count", what, at.rmws),
        );
    }
    if let Some((lo, hi)) = exp.clones {
        let n = evs.clones.len() + evs.zst_clones as usize;
        if n < lo || n > hi {
            violation(
                "clone-count",
                format!("`{}` called Clone::clone on the payload {} time(s), specified {}", what, n, if hi == lo { format!("{}", lo) } else { format!("at least {}", lo) }),
            );
        }
    }
}

// ------------------------------------------------------------------------------------------
// per-step invariants

fn fill_of(width: usize) -> u32 {
    match width {
        1 => 0xA5,
        2 => 0xA5A5,
        _ => 0xA5A5_A5A5,
    }
}

pub fn check_slot<F: Family>(s: &Slot<F>, env: &Env<F>, counts: bool, op: &Op, g: u32) {
    let what = || format!("after `{}`, slot {} ({})", op.text(), g, KIND_NAMES[s.h.kind() as usize]);
    if let Handle::ValP(p) = &s.h {
        let _ = p.read();
        return;
    }
    let a = env.m(|m| m.allocs[s.ai].clone());
    if a.dead {
        violation("use-after-destroy", format!("{}: the allocation b{} was already destroyed", what(), a.block));
    }
    // the accessors themselves must not move the count (C04: borrowing, with_arc, strong_count
    // ... never change it, not even while the borrow is in use)
    if counts {
        let c0 = sim::peek(a.ptr);
        sim::op_begin();
        let _ = s.h.view(false, true);
        let acc = sim::op_end();
        let c1 = sim::peek(a.ptr);
        if acc.rmws != 0 {
            // a transient increment is invisible afterwards but not to another thread meanwhile
            triomphe_verif_rt::count_violation(
                "count-touched",
                format!("{}: reading the handle's pointer and count accessors performed {} read-modify-write(s) on a reference count (a transient owner)", what(), acc.rmws),
            );
        }
        if c0 != c1 {
            triomphe_verif_rt::count_violation(
                "count-touched",
                format!("{}: reading the handle's pointer and count accessors changed the reference count word from {} to {}", what(), c0, c1),
            );
        }
    }
    let v = s.h.view(true, counts);
    // where the payload lives inside the block is learnt from the first observation (it must leave
    // room for the counter, lie inside the block and be aligned) and must never move afterwards
    let a = if !a.off_seen && v.data != 0 {
        let off = v.data.wrapping_sub(a.ptr);
        let b = ledger::block(a.block);
        let (_, _, min_off) = expected_layout::<F>(a.class, a.nelems);
        let psize = b.size.saturating_sub(off);
        let (need, _, foff) = expected_layout::<F>(a.class, a.nelems);
        if off < triomphe_verif_rt::sim::COUNTER_WIDTH.load(std::sync::atomic::Ordering::Relaxed) || off > b.size || psize < need - foff {
            violation(
                "addr:deref",
                format!("{}: Deref yields block+{:#x} of a {}-byte block: no room for the counter before it or for the payload after it (expected offset {:#x})", what(), off, b.size, min_off),
            );
        }
        env.m(|m| {
            m.allocs[s.ai].data_off = off;
            m.allocs[s.ai].off_seen = true;
        });
        env.m(|m| m.allocs[s.ai].clone())
    } else {
        a
    };
    let data = a.ptr + a.data_off;
    for (n, p) in &v.heap_ptrs {
        if *p != a.ptr {
            violation(
                "addr:heap",
                format!("{}: {} = block+{:#x}, expected the start of block b{}", what(), n, p.wrapping_sub(a.ptr), a.block),
            );
        }
    }
    if v.data != 0 && v.data != data {
        violation(
            "addr:deref",
            format!("{}: Deref yields block+{:#x}, the payload lives at block+{:#x}", what(), v.data.wrapping_sub(a.ptr), a.data_off),
        );
    }
    for (n, p) in &v.data_ptrs {
        if *p != data {
            violation(
                "addr:data",
                format!("{}: {} = block+{:#x}, the payload lives at block+{:#x}", what(), n, p.wrapping_sub(a.ptr), a.data_off),
            );
        }
    }
    let palign = match a.class {
        Class::P => F::P::ALIGN,
        Class::Q => F::Q::ALIGN,
        Class::Hs => F::H::ALIGN.max(F::E::ALIGN),
        Class::Sl => F::E::ALIGN,
        Class::Fat => F::H::ALIGN.max(F::E::ALIGN).max(8),
        Class::Str => 1,
        Class::HStr => F::H::ALIGN,
    };
    if data % palign != 0 {
        violation("addr:misaligned", format!("{}: payload address is not aligned to {}", what(), palign));
    }
    if let Some(ha) = v.header_addr {
        if ha != data {
            violation("addr:header", format!("{}: header at block+{:#x}, expected block+{:#x}", what(), ha.wrapping_sub(a.ptr), a.data_off));
        }
    }
    if let Some((lo, hi)) = v.elem_range {
        let elo = data + slice_offset::<F>(a.class);
        let ehi = elo + a.nelems * F::E::SIZE;
        if lo != elo || hi != ehi {
            violation(
                "addr:slice",
                format!(
                    "{}: slice occupies block+{:#x}..{:#x}, expected block+{:#x}..{:#x} ({} elements)",
                    what(), lo.wrapping_sub(a.ptr), hi.wrapping_sub(a.ptr), elo - a.ptr, ehi - a.ptr, a.nelems
                ),
            );
        }
        let b = ledger::block(a.block);
        if hi > b.ptr + b.size {
            violation("addr:slice-oob", format!("{}: slice extends past the end of block b{}", what(), a.block));
        }
    }
    // contents
    if let Some(x) = v.val {
        if Some(x) != a.val.or(Some(0)) && !(a.val.is_none() && x == 0) {
            violation("value-mismatch", format!("{}: value reads #{} but the model holds #{:?}", what(), x, a.val));
        }
    }
    if let Some(h) = v.header {
        if Some(h) != a.header {
            violation("value-mismatch", format!("{}: header reads #{} but the model holds #{:?}", what(), h, a.header));
        }
    }
    if let Some(l) = v.hlen {
        if Some(l) != a.hlen {
            violation("length-mismatch", format!("{}: recorded length reads {} but the model holds {:?}", what(), l, a.hlen));
        }
    }
    if let Some(es) = &v.elems {
        if *es != a.elems {
            violation(
                "value-mismatch",
                format!("{}: elements read {:?} but the model holds {:?}", what(), es, a.elems),
            );
        }
    }
    if let Some(es) = &v.mu_elems {
        if es.len() != a.nelems {
            violation("length-mismatch", format!("{}: {} uninit slots, model holds {}", what(), es.len(), a.nelems));
        }
        for (i, &raw) in es.iter().enumerate() {
            if F::E::ZST {
                continue;
            }
            if a.written[i] {
                if raw != a.elems[i] {
                    violation("value-mismatch", format!("{}: written slot {} reads #{} but the model holds #{}", what(), i, raw, a.elems[i]));
                }
            } else if !env.passthrough {
                // a never-written slot holds whatever it held when first observed, bit for bit
                let prev = env.m(|m| {
                    let o = &mut m.allocs[s.ai].observed;
                    if o.len() <= i {
                        o.resize(i + 1, None);
                    }
                    let p = o[i];
                    o[i] = Some(raw);
                    p
                });
                if let Some(p) = prev {
                    if p != raw {
                        violation("uninit-slot-touched", format!("{}: never-written slot {} changed from {:#x} to {:#x} although nobody wrote it", what(), i, p, raw));
                    }
                }
            }
        }
    }
    if let Some(raw) = v.mu_val {
        if !F::P::ZST {
            if a.written.first().copied().unwrap_or(false) {
                if Some(raw) != a.val {
                    violation("value-mismatch", format!("{}: written value reads #{} but the model holds #{:?}", what(), raw, a.val));
                }
            } else if !env.passthrough {
                let prev = env.m(|m| {
                    let o = &mut m.allocs[s.ai].observed;
                    if o.is_empty() {
                        o.push(None);
                    }
                    let p = o[0];
                    o[0] = Some(raw);
                    p
                });
                if let Some(p) = prev {
                    if p != raw {
                        violation("uninit-slot-touched", format!("{}: never-written value changed from {:#x} to {:#x} although nobody wrote it", what(), p, raw));
                    }
                }
            }
        }
    }
    if let Some(st) = &v.s {
        if Some(st) != a.s.as_ref() {
            violation("value-mismatch", format!("{}: string reads {:?} but the model holds {:?}", what(), st, a.s));
        }
    }
    for (n, c) in &v.counts {
        if *c as i64 != a.owners as i64 {
            triomphe_verif_rt::count_violation(
                "count-mismatch",
                format!("{}: {} reports {} but {} owning handle(s) exist", what(), n, c, a.owners),
            );
        }
    }
    if let Some((isf, nsec, asf, nass)) = v.union_first {
        let want = s.h.kind() == Kind::UnionP;
        if isf != want || nsec != want || asf != want || nass != want {
            violation(
                "union-variant",
                format!(
                    "{}: built from the {} type but is_first={} !is_second={} as_first.is_some={} as_second.is_none={}",
                    what(), if want { "first" } else { "second" }, isf, nsec, asf, nass
                ),
            );
        }
    }
    // raw pointers and uniques have no accessor for the count: observe the counter word itself
    if counts && v.counts.is_empty() {
        let c = sim::peek(a.ptr);
        if c as i64 != a.owners as i64 {
            triomphe_verif_rt::count_violation(
                "count-mismatch",
                format!("{}: the reference count word holds {} but {} owning handle(s) exist", what(), c, a.owners),
            );
        }
    }
}

pub fn check_all<F: Family>(slots: &[Option<Slot<F>>], base: usize, env: &Env<F>, op: &Op) {
    for (i, s) in slots.iter().enumerate() {
        if let Some(s) = s {
            check_slot(s, env, true, op, (base + i) as u32);
        }
    }
    {
        let mail = env.mail.lock().unwrap_or_else(|e| e.into_inner());
        for q in mail.iter() {
            for (s, _) in q.iter() {
                check_slot(s, env, true, op, 999);
            }
        }
    }
    check_global(env, op);
}

/// Add the life story of the allocations owning `blocks` to the attribution context.
pub fn note_blocks<F: Family>(env: &Env<F>, blocks: &[u32]) {
    let f = env.m(|m| m.allocs.iter().filter(|a| blocks.contains(&a.block)).fold(0, |x, a| x | a.fams));
    crate::context::add_fams(0, f);
}

pub fn check_global<F: Family>(env: &Env<F>, op: &Op) {
    let (nlive, nleaked) = env.m(|m| (m.live_allocs().count(), m.allocs.iter().filter(|a| a.leaked).count()));
    let lc = ledger::live_count();
    if lc != nlive + nleaked {
        let (ids, n) = ledger::live_blocks();
        let known: Vec<u32> = env.m(|m| m.allocs.iter().filter(|a| !a.dead).map(|a| a.block).collect());
        let extra: Vec<u32> = ids[..n].iter().copied().filter(|b| !known.contains(b)).collect();
        note_blocks(env, &ids[..n]);
        violation(
            if lc > nlive + nleaked { "leak:block" } else { "missing-block" },
            format!(
                "after `{}`: {} tracked block(s) are allocated but the model holds {} live allocation(s) (+{} documented leak(s)); unaccounted: {:?}",
                op.text(), lc, nlive, nleaked, extra
            ),
        );
    }
    if let Some(b) = ledger::verify_live() {
        violation("redzone", format!("after `{}`: bytes past the end of block b{} were overwritten", op.text(), b));
    }
}

//! Seeded program generation. One PRNG (seeded with the per-run seed) decides the swarm
//! configuration (family, thread count, enabled op classes, scheduler flavour, fault plan) and
//! the program. A shadow state predicts slot kinds so that most generated ops apply; ops stay
//! total, so a wrong prediction only costs a skipped op.

use crate::family::NFAMILIES;
use crate::handle::Kind;
use crate::ops::*;
use crate::shapes::Cb;
use triomphe_verif_rt::rng::Rng;

#[derive(Clone, Copy, Debug)]
struct Sh {
    kind: Kind,
    alloc: usize,
}

#[derive(Clone, Debug)]
struct AllocSh {
    owners: i32,
    n: usize,
    written: usize,
    hlen_ok: bool,
}

struct G<'a> {
    rng: &'a mut Rng,
    slots: Vec<Option<Sh>>,
    allocs: Vec<AllocSh>,
    mail: Vec<Vec<Sh>>,
    copy_family: bool,
    same_pq: bool,
    zst_e: bool,
    max_len: usize,
    cfg_a: bool,
}

#[derive(Clone, Copy, Debug, PartialEq, Eq)]
pub enum Cat {
    CreateSized,
    CreateSlice,
    CreateThin,
    CreateStr,
    CreateUninit,
    CreateLying,
    CreateHuge,
    Clone,
    Convert,
    Raw,
    Union,
    Thin,
    Swap,
    Inspect,
    Cmp,
    Uniq,
    Cow,
    Unwrap,
    ThinMut,
    Uninit,
    Drop,
    Mail,
    Move,
    Serde,
    Shared,
    CloneFrom,
}

pub struct Profile {
    pub name: &'static str,
    pub weights: &'static [(Cat, u32)],
    /// (threads, weight)
    pub threads: &'static [(usize, u32)],
    pub setup_ops: (usize, usize),
    pub par_ops: (usize, usize),
    pub post_ops: (usize, usize),
    pub fault_pct: u32,
    /// callback classes the swarm may arm (empty = all)
    pub fault_kinds: &'static [Cb],
    pub max_len: usize,
    pub families: &'static [usize],
}

use Cat::*;

const ALL_FAM: &[usize] = &[0, 1, 2, 3, 4, 5, 6, 7, 8, 9, 10, 11, 12, 13, 14, 15, 16];

pub const PROFILES: &[Profile] = &[
    Profile {
        name: "C01",
        weights: &[
            (CreateSized, 8), (CreateSlice, 6), (CreateThin, 4), (CreateStr, 2), (CreateUninit, 2), (CreateLying, 1),
            (Clone, 14), (Convert, 10), (Raw, 6), (Union, 5), (Thin, 6), (Swap, 2), (Inspect, 5), (Cmp, 2), (Uniq, 5), (Cow, 4),
            (Unwrap, 4), (ThinMut, 3), (Uninit, 3), (Drop, 16), (Mail, 5), (Move, 2), (Shared, 4), (CloneFrom, 3),
        ],
        threads: &[(1, 50), (2, 25), (3, 15), (4, 10)],
        setup_ops: (3, 14),
        par_ops: (4, 24),
        post_ops: (0, 8),
        fault_pct: 12,
        fault_kinds: &[],
        max_len: 12,
        families: ALL_FAM,
    },
    Profile {
        name: "C02",
        weights: &[(Clone, 22), (Convert, 8), (Raw, 4), (Union, 3), (Thin, 4), (Inspect, 14), (Drop, 26), (Mail, 12), (Move, 1), (CreateSized, 2), (CreateSlice, 1), (Unwrap, 4), (Uniq, 3), (Cow, 3), (Shared, 12), (Swap, 3)],
        threads: &[(2, 60), (3, 30), (4, 10)],
        setup_ops: (3, 10),
        par_ops: (2, 10),
        post_ops: (0, 2),
        fault_pct: 0,
        fault_kinds: &[],
        max_len: 4,
        families: &[0, 1, 2, 4, 7, 11, 12],
    },
    Profile {
        name: "C03",
        weights: &[(Uniq, 30), (Cow, 6), (Unwrap, 4), (ThinMut, 6), (Clone, 14), (Convert, 6), (Raw, 3), (Union, 3), (Thin, 3), (Inspect, 8), (Drop, 16), (Mail, 5), (CreateSized, 5), (CreateSlice, 3), (CreateThin, 2), (CreateUninit, 2), (Uninit, 2), (Shared, 5)],
        threads: &[(1, 45), (2, 35), (3, 20)],
        setup_ops: (3, 10),
        par_ops: (3, 14),
        post_ops: (0, 4),
        fault_pct: 6,
        fault_kinds: &[Cb::Clone, Cb::Clone, Cb::Closure, Cb::Drop],
        max_len: 5,
        families: ALL_FAM,
    },
    Profile {
        name: "C04",
        weights: &[(Inspect, 16), (Cmp, 8), (Clone, 16), (Convert, 12), (Raw, 6), (Union, 6), (Thin, 8), (Swap, 3), (Drop, 12), (CreateSized, 6), (CreateSlice, 4), (CreateThin, 4), (CreateStr, 1), (Uniq, 3), (Cow, 2), (Unwrap, 2), (ThinMut, 3), (Move, 3)],
        threads: &[(1, 100)],
        setup_ops: (6, 40),
        par_ops: (0, 0),
        post_ops: (0, 0),
        fault_pct: 10,
        fault_kinds: &[],
        max_len: 6,
        families: ALL_FAM,
    },
    Profile {
        name: "C05",
        weights: &[(CreateSized, 10), (CreateSlice, 16), (CreateThin, 8), (CreateStr, 4), (CreateUninit, 8), (CreateHuge, 3), (CreateLying, 1), (Convert, 10), (Raw, 6), (Union, 4), (Thin, 6), (Swap, 3), (Uninit, 8), (Unwrap, 5), (Cow, 3), (Clone, 4), (Drop, 18)],
        threads: &[(1, 100)],
        setup_ops: (6, 36),
        par_ops: (0, 0),
        post_ops: (0, 0),
        // "exactly that block is returned to the allocator, once" also when a destructor or an
        // iterator unwinds part-way
        fault_pct: 6,
        fault_kinds: &[Cb::Drop, Cb::Drop, Cb::IterNext, Cb::Default],
        max_len: 40,
        families: ALL_FAM,
    },
    Profile {
        name: "C06",
        weights: &[(CreateSized, 10), (CreateSlice, 30), (CreateThin, 10), (CreateStr, 6), (Convert, 4), (Inspect, 4), (Drop, 24), (Clone, 3)],
        threads: &[(1, 100)],
        setup_ops: (4, 24),
        par_ops: (0, 0),
        post_ops: (0, 0),
        fault_pct: 0,
        fault_kinds: &[],
        max_len: 300,
        families: ALL_FAM,
    },
    Profile {
        name: "C07",
        weights: &[(CreateLying, 14), (CreateSlice, 10), (CreateThin, 8), (CreateSized, 6), (Cow, 10), (Unwrap, 6), (ThinMut, 8), (Cmp, 10), (Inspect, 8), (Clone, 10), (Convert, 5), (Thin, 4), (Union, 3), (Drop, 10), (CloneFrom, 5)],
        threads: &[(1, 100)],
        setup_ops: (5, 22),
        par_ops: (0, 0),
        post_ops: (0, 0),
        fault_pct: 0, // the engine enumerates fault points itself
        fault_kinds: &[],
        max_len: 6,
        families: ALL_FAM,
    },
    Profile {
        name: "C08",
        weights: &[(Cow, 30), (Clone, 16), (Convert, 8), (Raw, 4), (Union, 4), (Inspect, 8), (Drop, 16), (Mail, 5), (CreateSized, 8), (Uniq, 3), (Shared, 6)],
        threads: &[(1, 45), (2, 35), (3, 20)],
        setup_ops: (3, 10),
        par_ops: (3, 12),
        post_ops: (0, 4),
        fault_pct: 8,
        fault_kinds: &[],
        max_len: 3,
        families: ALL_FAM,
    },
    Profile {
        name: "C09",
        weights: &[(Unwrap, 30), (Clone, 16), (Convert, 8), (Raw, 4), (Union, 4), (Inspect, 6), (Drop, 16), (Mail, 5), (CreateSized, 9), (Uniq, 3), (Shared, 5), (Cow, 5)],
        threads: &[(1, 45), (2, 35), (3, 20)],
        setup_ops: (3, 10),
        par_ops: (2, 10),
        post_ops: (0, 4),
        fault_pct: 8,
        fault_kinds: &[Cb::Clone, Cb::Clone, Cb::Drop, Cb::Closure, Cb::Cmp],
        max_len: 3,
        families: ALL_FAM,
    },
    Profile {
        name: "C10",
        weights: &[(CreateThin, 18), (CreateLying, 6), (Thin, 22), (ThinMut, 16), (Clone, 12), (Inspect, 8), (Cmp, 4), (Drop, 14), (Swap, 2), (Uniq, 2), (Raw, 3)],
        threads: &[(1, 100)],
        setup_ops: (5, 32),
        par_ops: (0, 0),
        post_ops: (0, 0),
        fault_pct: 10,
        fault_kinds: &[],
        max_len: 8,
        families: ALL_FAM,
    },
    Profile {
        name: "C11",
        weights: &[(Raw, 24), (Convert, 14), (Swap, 6), (Thin, 6), (Union, 6), (Clone, 10), (Inspect, 10), (Move, 4), (Drop, 10), (CreateSized, 10), (CreateSlice, 6), (CreateThin, 4), (CreateStr, 2), (Cow, 5), (Uniq, 3), (Cmp, 6)],
        threads: &[(1, 100)],
        setup_ops: (5, 32),
        par_ops: (0, 0),
        post_ops: (0, 0),
        fault_pct: 0,
        fault_kinds: &[],
        max_len: 9,
        families: ALL_FAM,
    },
    Profile {
        name: "C12",
        weights: &[(Union, 34), (Clone, 16), (Inspect, 10), (Cmp, 10), (Convert, 6), (Drop, 14), (CreateSized, 12), (Raw, 2)],
        threads: &[(1, 100)],
        setup_ops: (5, 32),
        par_ops: (0, 0),
        post_ops: (0, 0),
        fault_pct: 5,
        fault_kinds: &[],
        max_len: 3,
        families: ALL_FAM,
    },
    Profile {
        name: "C15",
        weights: &[(CreateUninit, 22), (Uninit, 30), (Clone, 8), (Convert, 8), (Thin, 3), (Uniq, 10), (Inspect, 6), (Drop, 16), (Mail, 3), (Shared, 2), (CreateHuge, 2)],
        threads: &[(1, 70), (2, 20), (3, 10)],
        setup_ops: (5, 32),
        par_ops: (3, 12),
        post_ops: (0, 4),
        fault_pct: 12,
        fault_kinds: &[Cb::Drop, Cb::Drop, Cb::Cmp, Cb::Fmt],
        max_len: 12,
        families: ALL_FAM,
    },
];

pub const PROFILE_C17: Profile = Profile {
    name: "C17",
    weights: &[(Serde, 30), (Clone, 18), (Inspect, 12), (Drop, 18), (Mail, 6), (CreateSized, 10), (Convert, 4), (Uniq, 3), (Cow, 2), (Shared, 4)],
    threads: &[(1, 35), (2, 45), (3, 20)],
    setup_ops: (3, 10),
    par_ops: (3, 12),
    post_ops: (0, 4),
    fault_pct: 0,
    fault_kinds: &[],
    max_len: 3,
    families: ALL_FAM,
};

pub fn profile(name: &str) -> Option<&'static Profile> {
    if name == "C17" {
        return Some(&PROFILE_C17);
    }
    PROFILES.iter().find(|p| p.name == name)
}

fn weighted<T: Copy>(rng: &mut Rng, xs: &[(T, u32)]) -> T {
    let total: u32 = xs.iter().map(|x| x.1).sum();
    let mut r = rng.below(total as usize) as u32;
    for x in xs {
        if r < x.1 {
            return x.0;
        }
        r -= x.1;
    }
    xs[0].0
}

impl<'a> G<'a> {
    fn occupied(&self, lo: usize, hi: usize) -> Vec<usize> {
        (lo..hi).filter(|&i| self.slots[i].is_some()).collect()
    }
    fn empty(&self, lo: usize, hi: usize) -> Vec<usize> {
        (lo..hi).filter(|&i| self.slots[i].is_none()).collect()
    }
    fn of_kind(&self, lo: usize, hi: usize, ks: &[Kind]) -> Vec<usize> {
        (lo..hi).filter(|&i| self.slots[i].map(|s| ks.contains(&s.kind)).unwrap_or(false)).collect()
    }
    fn pick(&mut self, v: &[usize]) -> Option<usize> {
        if v.is_empty() {
            None
        } else {
            Some(v[self.rng.below(v.len())])
        }
    }
    fn len(&mut self) -> usize {
        // biased to 0..3, sometimes up to max_len, and to the 255/256 boundary for long profiles
        let r = self.rng.below(100);
        if self.rng.below(64) == 0 {
            // every profile occasionally crosses the 255/256 boundary and beyond
            return 250 + self.rng.below(60);
        }
        if r < 50 {
            self.rng.below(4)
        } else if r < 85 {
            self.rng.below(self.max_len.min(12) + 1)
        } else if self.max_len >= 256 && r < 92 {
            254 + self.rng.below(4)
        } else {
            self.rng.below(self.max_len + 1)
        }
    }
    fn new_alloc(&mut self, n: usize) -> usize {
        self.allocs.push(AllocSh { owners: 1, n, written: 0, hlen_ok: true });
        self.allocs.len() - 1
    }
    fn set(&mut self, i: usize, kind: Kind, alloc: usize) {
        self.slots[i] = Some(Sh { kind, alloc });
    }

    /// Try to generate one op of category `cat` using slots in lo..hi. Applies the predicted
    /// effect to the shadow state.
    fn gen(&mut self, cat: Cat, lo: usize, hi: usize, par: bool) -> Option<Op> {
        use Kind as K;
        let op = |c: OpCode, a: usize, b: usize, cc: usize| Some(Op::new(c, a as u32, b as u32, cc as u32));
        match cat {
            CreateSized => {
                let e = self.empty(lo, hi);
                let d = self.pick(&e)?;
                let (code, kind) = *self.rng.pick(&[
                    (OpCode::NewP, K::ArcP),
                    (OpCode::NewP, K::ArcP),
                    (OpCode::FromP, K::ArcP),
                    (OpCode::FromBoxP, K::ArcP),
                    (OpCode::DefaultP, K::ArcP),
                    (OpCode::NewQ, K::ArcQ),
                    (OpCode::NewQ, K::ArcQ),
                    (OpCode::UniNewP, K::UniP),
                ]);
                let a = self.new_alloc(0);
                self.set(d, kind, a);
                op(code, d, 0, 0)
            }
            CreateSlice => {
                let e = self.empty(lo, hi);
                let d = self.pick(&e)?;
                let n = self.len();
                let mut choices: Vec<(OpCode, Kind, usize)> = vec![
                    (OpCode::HsIter, K::Hs, 0),
                    (OpCode::HsVec, K::Hs, self.rng.below(8)),
                    (OpCode::SlVec, K::Sl, self.rng.below(8)),
                    (OpCode::SlIter, K::Sl, self.rng.below(3)),
                    (OpCode::UniSlIter, K::UniSl, self.rng.below(3)),
                ];
                if self.copy_family {
                    choices.push((OpCode::HsSlice, K::Hs, 0));
                    choices.push((OpCode::SlSlice, K::Sl, 0));
                }
                let (code, kind, c) = *self.rng.pick(&choices);
                // zero-sized elements: exact-size paths refuse (nothing is created)
                let refused = self.zst_e && matches!(code, OpCode::HsIter) || self.zst_e && matches!(code, OpCode::SlIter | OpCode::UniSlIter) && c == 0;
                if !refused {
                    let a = self.new_alloc(n);
                    self.set(d, kind, a);
                }
                op(code, d, n, c)
            }
            CreateThin => {
                let e = self.empty(lo, hi);
                let d = self.pick(&e)?;
                let n = self.len();
                let r = self.rng.below(10);
                if r < 4 {
                    if !self.zst_e {
                        let a = self.new_alloc(n);
                        self.set(d, K::Thin, a);
                    }
                    op(OpCode::ThinIter, d, n, 0)
                } else if r < 6 && self.copy_family {
                    let a = self.new_alloc(n);
                    self.set(d, K::Thin, a);
                    op(OpCode::ThinSlice, d, n, 0)
                } else if r < 8 {
                    if !self.zst_e {
                        let a = self.new_alloc(n);
                        self.set(d, K::Fat, a);
                    }
                    op(OpCode::FatIter, d, n, 0)
                } else {
                    // recorded length disagrees with the slice
                    let c = 1 + self.rng.below(5);
                    if !self.zst_e {
                        let a = self.new_alloc(n);
                        let ok = match c {
                            3 => n == 0,
                            4 => n == 0,
                            _ => false,
                        };
                        self.allocs[a].hlen_ok = ok;
                        self.set(d, K::Fat, a);
                    }
                    op(OpCode::FatIter, d, n, c)
                }
            }
            CreateStr => {
                let e = self.empty(lo, hi);
                let d = self.pick(&e)?;
                let n = self.len();
                let a = self.new_alloc(n);
                if self.rng.pct(50) {
                    self.set(d, K::Str, a);
                    op(OpCode::StrFrom, d, n, self.rng.below(4))
                } else {
                    self.set(d, K::HStr, a);
                    op(OpCode::HStrFrom, d, n, 0)
                }
            }
            CreateUninit => {
                let e = self.empty(lo, hi);
                let d = self.pick(&e)?;
                let n = self.len().min(12);
                let (code, kind, sized) = *self.rng.pick(&[
                    (OpCode::MuNew, K::MuP, true),
                    (OpCode::UniMuNew, K::UniMuP, true),
                    (OpCode::SlMuNew, K::SlMu, false),
                    (OpCode::UniSlMuNew, K::UniSlMu, false),
                    (OpCode::UniHsMuNew, K::UniHsMu, false),
                    (OpCode::UniFatMuNew, K::UniFatMu, false),
                ]);
                let a = self.new_alloc(if sized { 1 } else { n });
                self.set(d, kind, a);
                op(code, d, if sized { 0 } else { n }, 0)
            }
            CreateLying => {
                let e = self.empty(lo, hi);
                let d = self.pick(&e)?;
                let n = self.rng.below(7);
                let r = self.rng.below(3);
                // these never leave a handle (refusal) except the "either" regimes
                match r {
                    0 => op(OpCode::HsIter, d, n, 1 + self.rng.below(8)),
                    1 => op(OpCode::ThinIter, d, n, 1 + self.rng.below(8)),
                    _ => {
                        let c = 3 + self.rng.below(4);
                        op(if self.rng.pct(50) { OpCode::SlIter } else { OpCode::UniSlIter }, d, n, c)
                    }
                }
            }
            CreateHuge => op(OpCode::HugeNew, 0, self.rng.below(4), self.rng.below(3)),
            Clone => {
                let cloneable = [K::ArcP, K::ArcQ, K::OffP, K::UnionP, K::UnionQ, K::DynP, K::ErasedP, K::Hs, K::Sl, K::SlE, K::Fat, K::Prot, K::Thin, K::Str, K::HStr, K::MuP, K::SlMu];
                let src = self.of_kind(lo, hi, &cloneable);
                let s = self.pick(&src)?;
                let e = self.empty(lo, hi);
                let d = self.pick(&e)?;
                let sh = self.slots[s].unwrap();
                let r = self.rng.below(10);
                let (code, kind, c) = match (sh.kind, r) {
                    (K::ArcP, 0..=1) => (OpCode::BorrowCloneArc, K::ArcP, 0),
                    (K::ArcP, 2) => (OpCode::WithArcClone, K::ArcP, 0),
                    (K::ArcP, 3) => (OpCode::WithArcClone, K::OffP, 1),
                    (K::ArcQ, 0..=2) => (OpCode::BorrowCloneArc, K::ArcQ, 0),
                    (K::ErasedP, 0..=2) => (OpCode::BorrowCloneArc, K::ErasedP, 0),
                    (K::OffP, 0..=1) => (OpCode::BorrowCloneArc, K::ArcP, 0),
                    (K::OffP, 2..=3) => (OpCode::OffCloneArc, K::ArcP, 0),
                    (K::OffP, 4..=5) => (OpCode::WithArcClone, K::ArcP, 0),
                    (K::UnionP, 0..=2) => (OpCode::BorrowCloneArc, K::ArcP, 0),
                    (K::UnionP, 3) => (OpCode::WithArcClone, K::ArcP, 0),
                    (K::UnionQ, 0..=2) => (OpCode::BorrowCloneArc, K::ArcQ, 0),
                    (K::Thin, 0..=3) => (OpCode::WithArcClone, K::Fat, 0),
                    (k, _) => (OpCode::Clone, k, 0),
                };
                self.allocs[sh.alloc].owners += 1;
                self.set(d, kind, sh.alloc);
                op(code, s, d, c)
            }
            Convert => {
                let src = self.of_kind(lo, hi, &[K::ArcP, K::OffP, K::ErasedP, K::Sl, K::SlE, K::UniP, K::UniHs, K::UniSl, K::UniMuP, K::UniSlMu, K::UniFat, K::UniDynP]);
                let s = self.pick(&src)?;
                let sh = self.slots[s].unwrap();
                let (code, kind) = match sh.kind {
                    K::ArcP => *self.rng.pick(&[(OpCode::ToOffset, K::OffP), (OpCode::Erase, K::ErasedP), (OpCode::UnsizeDyn, K::DynP), (OpCode::ToOffset, K::OffP)]),
                    K::OffP => (OpCode::FromOffset, K::ArcP),
                    K::ErasedP => (OpCode::Unerase, K::ArcP),
                    K::Sl => (OpCode::Erase, K::SlE),
                    K::SlE => (OpCode::Unerase, K::Sl),
                    K::UniP => {
                        if self.cfg_a && self.rng.pct(35) {
                            (OpCode::UnsizeDyn, K::UniDynP)
                        } else {
                            (OpCode::Shareable, K::ArcP)
                        }
                    }
                    K::UniDynP => (OpCode::Shareable, K::DynP),
                    K::UniHs => (OpCode::Shareable, K::Hs),
                    K::UniSl => (OpCode::Shareable, K::Sl),
                    K::UniMuP => (OpCode::Shareable, K::MuP),
                    K::UniSlMu => (OpCode::Shareable, K::SlMu),
                    _ => (OpCode::Shareable, K::Fat),
                };
                if code == OpCode::UnsizeDyn && !self.cfg_a {
                    return None;
                }
                self.set(s, kind, sh.alloc);
                op(code, s, 0, 0)
            }
            Raw => {
                let src = self.of_kind(lo, hi, &[K::ArcP, K::Sl, K::DynP, K::Thin, K::RawP, K::RawSl, K::RawDyn, K::RawThin]);
                let s = self.pick(&src)?;
                let sh = self.slots[s].unwrap();
                let (code, kind) = match sh.kind {
                    K::ArcP => (OpCode::IntoRaw, K::RawP),
                    K::Sl => (OpCode::IntoRaw, K::RawSl),
                    K::DynP => (OpCode::IntoRaw, K::RawDyn),
                    K::Thin => (OpCode::IntoRaw, K::RawThin),
                    K::RawP => {
                        if self.rng.pct(35) {
                            (OpCode::FromRawAsDyn, K::DynP)
                        } else {
                            (OpCode::FromRaw, K::ArcP)
                        }
                    }
                    K::RawSl => (OpCode::FromRaw, K::Sl),
                    K::RawDyn => (OpCode::FromRaw, K::DynP),
                    _ => (OpCode::FromRaw, K::Thin),
                };
                self.set(s, kind, sh.alloc);
                // (trait-object casts: the slot's parity picks one of two vtable routes)
                op(code, s, 0, if code == OpCode::FromRawAsDyn { s % 2 } else { 0 })
            }
            Union => {
                let src = self.of_kind(lo, hi, &[K::ArcP, K::ArcQ, K::UnionP, K::UnionQ]);
                let s = self.pick(&src)?;
                let sh = self.slots[s].unwrap();
                match sh.kind {
                    K::ArcP => {
                        if self.same_pq && self.rng.pct(40) {
                            self.set(s, K::UnionQ, sh.alloc);
                            return op(OpCode::ToUnionCross, s, 0, 0);
                        }
                        self.set(s, K::UnionP, sh.alloc);
                        op(OpCode::ToUnion, s, 0, 0)
                    }
                    K::ArcQ => {
                        self.set(s, K::UnionQ, sh.alloc);
                        op(OpCode::ToUnion, s, 0, 0)
                    }
                    _ => {
                        // compare two unions / ptr_eq / inspect
                        let others = self.of_kind(lo, hi, &[K::UnionP, K::UnionQ]);
                        let o = self.pick(&others)?;
                        let code = *self.rng.pick(&[OpCode::CmpEq, OpCode::PtrEq, OpCode::FmtOp, OpCode::Read]);
                        op(code, s, o, 0)
                    }
                }
            }
            Thin => {
                let src = self.of_kind(lo, hi, &[K::Fat, K::Thin, K::Prot]);
                let s = self.pick(&src)?;
                let sh = self.slots[s].unwrap();
                match sh.kind {
                    K::Fat => {
                        if self.allocs[sh.alloc].hlen_ok {
                            self.set(s, K::Thin, sh.alloc);
                        } else {
                            // refusal: the Arc is released
                            self.allocs[sh.alloc].owners -= 1;
                            self.slots[s] = None;
                        }
                        op(OpCode::IntoThin, s, 0, 0)
                    }
                    K::Thin => {
                        let (code, kind) = *self.rng.pick(&[(OpCode::FromThin, K::Fat), (OpCode::ProtFromThin, K::Prot), (OpCode::RefCntTrip, K::Thin)]);
                        if code == OpCode::RefCntTrip && (!self.cfg_a || par) {
                            return None;
                        }
                        self.set(s, kind, sh.alloc);
                        op(code, s, 0, 0)
                    }
                    _ => {
                        self.set(s, K::Thin, sh.alloc);
                        op(OpCode::ProtIntoThin, s, 0, 0)
                    }
                }
            }
            Swap => {
                if !self.cfg_a || par {
                    return None;
                }
                let src = self.of_kind(lo, hi, &[K::ArcP, K::Thin, K::SwapP, K::SwapThin]);
                let s = self.pick(&src)?;
                let sh = self.slots[s].unwrap();
                match sh.kind {
                    K::ArcP => {
                        if self.rng.pct(40) {
                            return op(OpCode::RefCntTrip, s, 0, 0);
                        }
                        self.set(s, K::SwapP, sh.alloc);
                        op(OpCode::SwapWrap, s, 0, 0)
                    }
                    K::Thin => {
                        self.set(s, K::SwapThin, sh.alloc);
                        op(OpCode::SwapWrap, s, 0, 0)
                    }
                    k => {
                        if self.rng.pct(30) {
                            let want = if k == K::SwapP { K::ArcP } else { K::Thin };
                            let others = self.of_kind(lo, hi, &[want]);
                            if let Some(o) = self.pick(&others) {
                                let so = self.slots[o].unwrap();
                                self.set(s, k, so.alloc);
                                self.set(o, want, sh.alloc);
                                return op(OpCode::SwapExchange, s, o, self.rng.below(2));
                            }
                        }
                        if self.rng.pct(50) {
                            let e = self.empty(lo, hi);
                            let d = self.pick(&e)?;
                            self.allocs[sh.alloc].owners += 1;
                            self.set(d, if k == K::SwapP { K::ArcP } else { K::Thin }, sh.alloc);
                            op(OpCode::SwapLoadFull, s, d, 0)
                        } else {
                            self.set(s, if k == K::SwapP { K::ArcP } else { K::Thin }, sh.alloc);
                            op(OpCode::SwapUnwrap, s, 0, 0)
                        }
                    }
                }
            }
            Inspect => {
                let o = self.occupied(lo, hi);
                let s = self.pick(&o)?;
                let code = *self.rng.pick(&[OpCode::Read, OpCode::Read, OpCode::Counts, OpCode::WithArcNoop, OpCode::HashOp, OpCode::FmtOp, OpCode::Read]);
                op(code, s, 0, self.rng.below(2))
            }
            Cmp => {
                let o = self.occupied(lo, hi);
                let s = self.pick(&o)?;
                let k = self.slots[s].unwrap().kind;
                let same = self.of_kind(lo, hi, &[k]);
                let t = self.pick(&same)?;
                let code = *self.rng.pick(&[OpCode::CmpEq, OpCode::CmpEq, OpCode::CmpOrd, OpCode::PtrEq]);
                op(code, s, t, 0)
            }
            Uniq => {
                let src = self.of_kind(lo, hi, &[K::ArcP, K::ArcQ, K::ErasedP, K::Hs, K::Sl, K::Fat, K::DynP, K::Str, K::OffP, K::Thin, K::MuP, K::SlMu]);
                let s = self.pick(&src)?;
                let sh = self.slots[s].unwrap();
                let unique = self.allocs[sh.alloc].owners == 1;
                let r = self.rng.below(10);
                match (sh.kind, r) {
                    (K::OffP, _) | (K::Thin, 0..=3) => op(OpCode::IsUnique, s, 0, 0),
                    (K::Thin, _) => op(OpCode::ThinMutGetMut, s, 0, self.rng.below(16)),
                    (K::MuP, _) => op(OpCode::DepWrite, s, 0, 0),
                    (K::SlMu, _) => op(OpCode::DepAsMutSlice, s, self.rng.below(8), 0),
                    (K::ArcP | K::Hs | K::Sl | K::Fat, 0..=2) => {
                        let code = if self.rng.pct(50) { OpCode::TryUnique } else { OpCode::TryFromUni };
                        if unique && !par {
                            let nk = match sh.kind {
                                K::ArcP => K::UniP,
                                K::Hs => K::UniHs,
                                K::Sl => K::UniSl,
                                _ => K::UniFat,
                            };
                            self.set(s, nk, sh.alloc);
                        }
                        op(code, s, 0, 0)
                    }
                    (_, 3..=5) => op(OpCode::GetMut, s, 0, self.rng.below(16)),
                    (_, 6..=7) => op(OpCode::GetUnique, s, 0, self.rng.below(16)),
                    _ => op(OpCode::IsUnique, s, 0, 0),
                }
            }
            Cow => {
                let src = self.of_kind(lo, hi, &[K::ArcP, K::ArcQ, K::ErasedP, K::OffP]);
                let s = self.pick(&src)?;
                let sh = self.slots[s].unwrap();
                let unique = self.allocs[sh.alloc].owners == 1;
                if self.cfg_a && sh.kind == K::ArcP && self.rng.pct(12) {
                    // serde in-place deserialisation: the handle ends up as a sole owner
                    // (c >= 1000: malformed input, the place is left alone)
                    let c = self.rng.below(1400);
                    if c < 1000 {
                        self.allocs[sh.alloc].owners -= 1;
                        let a = self.new_alloc(0);
                        self.set(s, K::ArcP, a);
                    }
                    return op(OpCode::DeInPlace, s, 0, c);
                }
                if !unique {
                    self.allocs[sh.alloc].owners -= 1;
                    let a = self.new_alloc(0);
                    self.set(s, sh.kind, a);
                }
                let code = if sh.kind == K::ArcP && self.rng.pct(30) { OpCode::MakeUnique } else { OpCode::MakeMut };
                op(code, s, 0, 0)
            }
            Unwrap => {
                let src = self.of_kind(lo, hi, &[K::ArcP, K::UniP]);
                let s = self.pick(&src)?;
                let sh = self.slots[s].unwrap();
                if sh.kind == K::UniP {
                    self.allocs[sh.alloc].owners -= 1;
                    self.set(s, K::ValP, usize::MAX);
                    return op(OpCode::IntoInner, s, 0, 0);
                }
                let unique = self.allocs[sh.alloc].owners == 1;
                if self.rng.pct(50) {
                    if unique && !par {
                        self.allocs[sh.alloc].owners -= 1;
                        self.set(s, K::ValP, usize::MAX);
                    }
                    op(OpCode::TryUnwrap, s, 0, 0)
                } else {
                    self.allocs[sh.alloc].owners -= 1;
                    self.set(s, K::ValP, usize::MAX);
                    op(OpCode::UnwrapOrClone, s, 0, 0)
                }
            }
            ThinMut => {
                let src = self.of_kind(lo, hi, &[K::Thin]);
                let s = self.pick(&src)?;
                let sh = self.slots[s].unwrap();
                let r = self.rng.below(10);
                if r < 4 {
                    op(OpCode::ThinMutGetMut, s, 0, self.rng.below(16))
                } else if r < 6 {
                    op(OpCode::ThinMutNoop, s, 0, self.rng.below(2))
                } else {
                    let others: Vec<usize> = self.of_kind(lo, hi, &[K::Thin, K::Prot]).into_iter().filter(|&o| o != s).collect();
                    let o = self.pick(&others)?;
                    let so = self.slots[o].unwrap();
                    let c = self.rng.below(4);
                    if (c / 2) % 2 == 1 {
                        // swap: a takes b's allocation, b gets a's back as a protected fat Arc
                        self.set(s, K::Thin, so.alloc);
                        self.set(o, K::Prot, sh.alloc);
                    } else {
                        self.allocs[sh.alloc].owners -= 1;
                        self.set(s, K::Thin, so.alloc);
                        self.slots[o] = None;
                    }
                    op(OpCode::ThinMutReplace, s, o, c)
                }
            }
            Uninit => {
                let src = self.of_kind(lo, hi, &[K::UniMuP, K::MuP, K::UniSlMu, K::SlMu, K::UniHsMu, K::UniFatMu, K::UniP, K::UniHs, K::UniSl, K::UniFat]);
                let s = self.pick(&src)?;
                let sh = self.slots[s].unwrap();
                if matches!(sh.kind, K::UniP | K::UniHs | K::UniSl | K::UniFat) {
                    return op(OpCode::UniWrite, s, 0, self.rng.below(16));
                }
                let a = &self.allocs[sh.alloc];
                let full = a.written >= a.n;
                if full && self.rng.pct(70) {
                    let nk = match sh.kind {
                        K::UniMuP => K::UniP,
                        K::MuP => K::ArcP,
                        K::UniSlMu => K::UniSl,
                        K::SlMu => K::Sl,
                        K::UniHsMu => K::UniHs,
                        _ => K::UniFat,
                    };
                    if !(matches!(sh.kind, K::MuP | K::SlMu) && a.owners != 1) {
                        self.set(s, nk, sh.alloc);
                    }
                    op(OpCode::AssumeInit, s, 0, self.rng.below(2))
                } else {
                    // write the next unwritten slot most of the time (so that "all written" is reached)
                    let i = if self.rng.pct(80) { a.written } else { self.rng.below(a.n.max(1)) };
                    if i == a.written && a.written < a.n {
                        self.allocs[sh.alloc].written += 1;
                    }
                    op(OpCode::WriteSlot, s, i, self.rng.below(6))
                }
            }
            Drop => {
                let o = self.occupied(lo, hi);
                let s = self.pick(&o)?;
                let sh = self.slots[s].unwrap();
                if sh.alloc != usize::MAX {
                    self.allocs[sh.alloc].owners -= 1;
                }
                self.slots[s] = None;
                op(OpCode::Drop, s, 0, 0)
            }
            Mail => {
                if self.rng.pct(55) {
                    let o: Vec<usize> = self.occupied(lo, hi).into_iter().filter(|&i| !matches!(self.slots[i].unwrap().kind, K::SwapP | K::SwapThin)).collect();
                    let s = self.pick(&o)?;
                    let mb = self.rng.below(NMAIL);
                    let sh = self.slots[s].take().unwrap();
                    self.mail[mb].push(sh);
                    op(OpCode::Send, s, mb, 0)
                } else {
                    let e = self.empty(lo, hi);
                    let d = self.pick(&e)?;
                    let mb = self.rng.below(NMAIL);
                    if !par && !self.mail[mb].is_empty() {
                        let sh = self.mail[mb].remove(0);
                        self.slots[d] = Some(sh);
                    } else if par && !self.mail[mb].is_empty() && self.rng.pct(60) {
                        // may or may not arrive depending on the schedule: predict arrival
                        let sh = self.mail[mb].remove(0);
                        self.slots[d] = Some(sh);
                    }
                    op(OpCode::Recv, mb, d, 0)
                }
            }
            Serde => {
                if !self.cfg_a {
                    return None;
                }
                let src = self.of_kind(lo, hi, &[K::ArcP, K::UniP]);
                let s = self.pick(&src)?;
                let sh = self.slots[s].unwrap();
                let c = self.rng.below(1400);
                if c < 1000 {
                    self.allocs[sh.alloc].owners -= 1;
                    let a = self.new_alloc(0);
                    self.set(s, sh.kind, a);
                }
                op(OpCode::DeInPlace, s, 0, c)
            }
            Shared => {
                // clone / read through one of the handles every thread shares by reference
                let sh: Vec<usize> = (SHARED_BASE..SHARED_BASE + NSHARED).filter(|&i| self.slots[i].is_some()).collect();
                let s = self.pick(&sh)?;
                let src = self.slots[s].unwrap();
                if self.rng.pct(25) {
                    return op(OpCode::ReadShared, s, 0, 0);
                }
                let e = self.empty(lo, hi.min(SHARED_BASE));
                let d = self.pick(&e)?;
                let c = self.rng.below(16);
                // which API is used decides the kind of the new handle
                let kind = match (src.kind, c % 4) {
                    (K::ArcP, 1) => K::ArcP,
                    (K::ArcP, 2) => {
                        if (c / 4) % 2 == 0 {
                            K::ArcP
                        } else {
                            K::OffP
                        }
                    }
                    (K::OffP, 1) | (K::OffP, 2) | (K::OffP, 3) => K::ArcP,
                    (K::UnionP, 1) | (K::UnionP, 2) => K::ArcP,
                    (K::UnionQ, 1) => K::ArcQ,
                    (K::Thin, 2) => K::Fat,
                    (k, _) => k,
                };
                self.allocs[src.alloc].owners += 1;
                self.set(d, kind, src.alloc);
                op(OpCode::CloneShared, s, d, c)
            }
            Move => {
                let o = self.occupied(lo, hi);
                let s = self.pick(&o)?;
                let e = self.empty(lo, hi);
                let d = self.pick(&e)?;
                self.slots[d] = self.slots[s].take();
                op(OpCode::MoveSlot, s, d, 0)
            }
            CloneFrom => {
                if par {
                    return None;
                }
                let src = self.of_kind(lo, hi, &[K::ArcP, K::OffP, K::Thin, K::Hs, K::Sl, K::UnionP, K::UnionQ]);
                let s = self.pick(&src)?;
                let sh = self.slots[s].unwrap();
                let union = matches!(sh.kind, K::UnionP | K::UnionQ);
                let dsts: Vec<usize> = if union { self.of_kind(lo, hi, &[K::UnionP, K::UnionQ]) } else { self.of_kind(lo, hi, &[sh.kind]) };
                let dsts: Vec<usize> = dsts.into_iter().filter(|&d| d != s).collect();
                let d = self.pick(&dsts)?;
                let dh = self.slots[d].unwrap();
                self.allocs[dh.alloc].owners -= 1;
                self.allocs[sh.alloc].owners += 1;
                self.set(d, sh.kind, sh.alloc);
                op(OpCode::CloneFrom, d, s, 0)
            }
        }
    }
}

pub fn generate(prof: &Profile, seed: u64, cfg_a: bool) -> Program {
    let mut rng = Rng::new(seed);
    let family = prof.families[rng.below(prof.families.len())];
    let _ = NFAMILIES;
    let nthreads = weighted(&mut rng, prof.threads);
    let copy_family = matches!(family, 7 | 8 | 9 | 10 | 13);
    let same_pq = matches!(family, 1 | 4 | 7 | 14);
    let zst_e = family == 5;
    // swarm: disable a random subset of the categories (never Drop / CreateSized)
    let mut weights: Vec<(Cat, u32)> = prof.weights.to_vec();
    if rng.pct(60) {
        for w in weights.iter_mut() {
            if !matches!(w.0, Drop | CreateSized | Clone) && rng.pct(30) {
                w.1 = 0;
            }
        }
    }
    // and boost one of them
    if rng.pct(40) {
        let i = rng.below(weights.len());
        weights[i].1 *= 4;
    }
    if weights.iter().all(|w| w.1 == 0) {
        weights = prof.weights.to_vec();
    }
    let stale_pct = *rng.pick(&[0u32, 10, 25, 50, 80]);
    let switch_pct = *rng.pick(&[5u32, 15, 30, 50, 80]);
    let pct_depth = *rng.pick(&[0u32, 0, 0, 1, 2, 3]);
    let fault = if prof.fault_pct > 0 && rng.pct(prof.fault_pct) {
        let all = [Cb::IterNext, Cb::IterLen, Cb::IterHint, Cb::Clone, Cb::Cmp, Cb::Hash, Cb::Fmt, Cb::Closure, Cb::Clone, Cb::Closure, Cb::Drop, Cb::Drop, Cb::Default];
        let cb = if prof.fault_kinds.is_empty() { *rng.pick(&all) } else { *rng.pick(prof.fault_kinds) };
        let mut v = vec![(cb, 1 + rng.below(6) as u32)];
        // sometimes a second fault later in the same run: the state left by the first unwinding
        // has to survive another one
        if rng.pct(30) {
            let cb2 = *rng.pick(&[Cb::IterNext, Cb::Clone, Cb::Cmp, Cb::Closure, Cb::Drop, Cb::Fmt]);
            let k2 = 1 + rng.below(8) as u32;
            if !(cb2 == cb && k2 == v[0].1) {
                v.push((cb2, k2));
            }
        }
        v
    } else {
        Vec::new()
    };
    let total_slots = 4 * NS + NSHARED;
    let mut g = G {
        rng: &mut rng,
        slots: vec![None; total_slots],
        allocs: Vec::new(),
        mail: vec![Vec::new(); NMAIL],
        copy_family,
        same_pq,
        zst_e,
        max_len: prof.max_len,
        cfg_a,
    };
    let gen_ops = |g: &mut G, n: usize, lo: usize, hi: usize, par: bool, weights: &[(Cat, u32)]| -> Vec<Op> {
        let mut ops = Vec::with_capacity(n);
        let mut tries = 0;
        while ops.len() < n && tries < n * 6 {
            tries += 1;
            let cat = weighted(g.rng, weights);
            if let Some(o) = g.gen(cat, lo, hi, par) {
                ops.push(o);
            }
        }
        ops
    };
    let nsetup = g.rng.range(prof.setup_ops.0, prof.setup_ops.1);
    // bootstrap: a few creations of the kinds this profile cares about
    let creates: Vec<(Cat, u32)> = prof
        .weights
        .iter()
        .copied()
        .filter(|w| matches!(w.0, CreateSized | CreateSlice | CreateThin | CreateStr | CreateUninit))
        .collect();
    let creates = if creates.is_empty() { vec![(CreateSized, 1)] } else { creates };
    let nboot = 1 + g.rng.below(3);
    let mut setup = gen_ops(&mut g, nboot, 0, nthreads * NS, false, &creates);
    // setup distributes handles over the slots of all participating threads
    setup.extend(gen_ops(&mut g, nsetup, 0, nthreads * NS, false, &weights));
    if nthreads > 1 {
        // make sure sharing exists: clone something into every thread's range
        for t in 1..nthreads {
            let src = g.of_kind(0, nthreads * NS, &[Kind::ArcP, Kind::Thin, Kind::OffP, Kind::UnionP, Kind::Hs, Kind::Sl, Kind::ArcQ, Kind::Fat, Kind::DynP]);
            let e = g.empty(t * NS, (t + 1) * NS);
            if let (Some(s), Some(d)) = (g.pick(&src), g.pick(&e)) {
                let sh = g.slots[s].unwrap();
                g.allocs[sh.alloc].owners += 1;
                g.set(d, sh.kind, sh.alloc);
                setup.push(Op::new(OpCode::Clone, s as u32, d as u32, 0));
            }
        }
    }
    if nthreads > 1 && g.rng.pct(65) {
        // park one or two handles where every thread can reach them by shared reference
        let n = 1 + g.rng.below(2);
        for i in 0..n {
            let src = g.of_kind(0, nthreads * NS, &[Kind::ArcP, Kind::Thin, Kind::OffP, Kind::UnionP, Kind::UnionQ, Kind::Hs, Kind::Sl, Kind::ArcQ, Kind::Fat, Kind::DynP, Kind::ErasedP]);
            if let Some(s) = g.pick(&src) {
                let sh = g.slots[s].unwrap();
                let d = SHARED_BASE + i;
                if g.slots[d].is_none() {
                    if g.rng.pct(50) {
                        // move: the shared handle may be the only one (count exactly 1)
                        g.slots[d] = g.slots[s].take();
                        setup.push(Op::new(OpCode::MoveSlot, s as u32, d as u32, 0));
                    } else {
                        g.allocs[sh.alloc].owners += 1;
                        g.set(d, sh.kind, sh.alloc);
                        setup.push(Op::new(OpCode::Clone, s as u32, d as u32, 0));
                    }
                }
            }
        }
    }
    let mut par: Vec<Vec<Op>> = Vec::new();
    if nthreads > 1 {
        // generate round-robin so that the shadow owner counts interleave plausibly
        let lens: Vec<usize> = (0..nthreads).map(|_| g.rng.range(prof.par_ops.0, prof.par_ops.1)).collect();
        par = vec![Vec::new(); nthreads];
        let mut remaining: usize = lens.iter().sum();
        let mut tries = 0;
        while remaining > 0 && tries < 2000 {
            tries += 1;
            let t = g.rng.below(nthreads);
            if par[t].len() >= lens[t] {
                continue;
            }
            let cat = weighted(g.rng, &weights);
            if let Some(o) = g.gen(cat, t * NS, (t + 1) * NS, true) {
                par[t].push(o);
                remaining -= 1;
            }
        }
    } else {
        par.push(Vec::new());
    }
    let npost = g.rng.range(prof.post_ops.0, prof.post_ops.1);
    let post = if nthreads > 1 { gen_ops(&mut g, npost, 0, nthreads * NS, false, &weights) } else { Vec::new() };
    let pct_steps = (par.iter().map(|p| p.len()).sum::<usize>() * 3).max(8) as u32;
    Program {
        profile: prof.name.to_string(),
        seed,
        family,
        stale_pct,
        switch_pct,
        pct_depth,
        pct_steps,
        fault,
        choices: Choices::Seed(seed ^ 0xABCD_EF01_2345_6789),
        setup,
        par,
        post,
        expect: None,
        defer_counts: false,
    }
}

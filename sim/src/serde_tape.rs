//! C17 engine: serde's Serializer / Deserializer are the stream-like environment triomphe's
//! impls talk to. A recording ("tape") implementation of both, failing at the k-th callback
//! when armed, compares Arc<T> / UniqueArc<T> with T itself, call for call; the allocator
//! ledger and identity-tracked pieces check "fresh sole owner" and "nothing left behind".

use crate::model::arcinner;
use crate::shapes::{reg, reset_registry, IdState, Shape, T4A4};
use serde::de::{self, DeserializeSeed, Deserializer, IntoDeserializer, MapAccess, SeqAccess, Visitor};
use serde::ser::{self, Serialize, SerializeMap, SerializeSeq, SerializeStruct, SerializeTuple, Serializer};
use serde::Deserialize;
use std::cell::{Cell, RefCell};
use std::fmt;
use std::rc::Rc;
use triomphe::{Arc, UniqueArc};
use triomphe_verif_rt::ledger;
use triomphe_verif_rt::rng::{mix, Rng};
use triomphe_verif_rt::violation;

#[derive(Clone, Debug, PartialEq)]
pub enum Tok {
    Bool(bool),
    U8(u8),
    U32(u32),
    U64(u64),
    I64(i64),
    Str(String),
    None,
    Some,
    Unit,
    SeqBegin(Option<usize>),
    SeqEnd,
    TupleBegin(usize),
    TupleEnd,
    MapBegin(Option<usize>),
    MapEnd,
    StructBegin(&'static str, usize),
    Field(&'static str),
    StructEnd,
    Other(&'static str),
}

#[derive(Clone, Debug, PartialEq)]
pub enum TapeError {
    Injected(u32),
    Custom(String),
}
impl fmt::Display for TapeError {
    fn fmt(&self, f: &mut fmt::Formatter<'_>) -> fmt::Result {
        write!(f, "{:?}", self)
    }
}
impl std::error::Error for TapeError {}
impl ser::Error for TapeError {
    fn custom<T: fmt::Display>(msg: T) -> Self {
        TapeError::Custom(msg.to_string())
    }
}
impl de::Error for TapeError {
    fn custom<T: fmt::Display>(msg: T) -> Self {
        TapeError::Custom(msg.to_string())
    }
}

// ------------------------------------------------------------------------------------------
// recording serializer

/// The armed callback unwinds instead of returning an error.
static PANIC_MODE: std::sync::atomic::AtomicBool = std::sync::atomic::AtomicBool::new(false);

#[derive(Clone)]
pub struct TapeSer {
    tape: Rc<RefCell<Vec<Tok>>>,
    calls: Rc<Cell<u32>>,
    fail_at: u32,
}
impl TapeSer {
    pub fn new(fail_at: u32) -> TapeSer {
        TapeSer { tape: Rc::new(RefCell::new(Vec::new())), calls: Rc::new(Cell::new(0)), fail_at }
    }
    fn step(&self, t: Tok) -> Result<(), TapeError> {
        let c = self.calls.get() + 1;
        self.calls.set(c);
        if c == self.fail_at {
            if PANIC_MODE.load(std::sync::atomic::Ordering::Relaxed) {
                panic!("injected: serializer callback #{}", c);
            }
            return Err(TapeError::Injected(c));
        }
        self.tape.borrow_mut().push(t);
        Ok(())
    }
    pub fn result(&self) -> (Vec<Tok>, u32) {
        (self.tape.borrow().clone(), self.calls.get())
    }
}

macro_rules! ser_prim {
    ($name:ident, $ty:ty, $tok:expr) => {
        fn $name(self, v: $ty) -> Result<(), TapeError> {
            self.step($tok(v))
        }
    };
}

impl Serializer for TapeSer {
    type Ok = ();
    type Error = TapeError;
    type SerializeSeq = TapeSer;
    type SerializeTuple = TapeSer;
    type SerializeTupleStruct = ser::Impossible<(), TapeError>;
    type SerializeTupleVariant = ser::Impossible<(), TapeError>;
    type SerializeMap = TapeSer;
    type SerializeStruct = TapeSer;
    type SerializeStructVariant = ser::Impossible<(), TapeError>;

    ser_prim!(serialize_bool, bool, Tok::Bool);
    ser_prim!(serialize_u8, u8, Tok::U8);
    ser_prim!(serialize_u32, u32, Tok::U32);
    ser_prim!(serialize_u64, u64, Tok::U64);
    ser_prim!(serialize_i64, i64, Tok::I64);
    fn serialize_i8(self, v: i8) -> Result<(), TapeError> {
        self.step(Tok::I64(v as i64))
    }
    fn serialize_i16(self, v: i16) -> Result<(), TapeError> {
        self.step(Tok::I64(v as i64))
    }
    fn serialize_i32(self, v: i32) -> Result<(), TapeError> {
        self.step(Tok::I64(v as i64))
    }
    fn serialize_u16(self, v: u16) -> Result<(), TapeError> {
        self.step(Tok::U64(v as u64))
    }
    fn serialize_f32(self, _: f32) -> Result<(), TapeError> {
        self.step(Tok::Other("f32"))
    }
    fn serialize_f64(self, _: f64) -> Result<(), TapeError> {
        self.step(Tok::Other("f64"))
    }
    fn serialize_char(self, _: char) -> Result<(), TapeError> {
        self.step(Tok::Other("char"))
    }
    fn serialize_str(self, v: &str) -> Result<(), TapeError> {
        self.step(Tok::Str(v.to_string()))
    }
    fn serialize_bytes(self, _: &[u8]) -> Result<(), TapeError> {
        self.step(Tok::Other("bytes"))
    }
    fn serialize_none(self) -> Result<(), TapeError> {
        self.step(Tok::None)
    }
    fn serialize_some<T: ?Sized + Serialize>(self, v: &T) -> Result<(), TapeError> {
        self.step(Tok::Some)?;
        v.serialize(self)
    }
    fn serialize_unit(self) -> Result<(), TapeError> {
        self.step(Tok::Unit)
    }
    fn serialize_unit_struct(self, n: &'static str) -> Result<(), TapeError> {
        self.step(Tok::Other(n))
    }
    fn serialize_unit_variant(self, n: &'static str, _: u32, _: &'static str) -> Result<(), TapeError> {
        self.step(Tok::Other(n))
    }
    fn serialize_newtype_struct<T: ?Sized + Serialize>(self, n: &'static str, v: &T) -> Result<(), TapeError> {
        self.step(Tok::Other(n))?;
        v.serialize(self)
    }
    fn serialize_newtype_variant<T: ?Sized + Serialize>(self, n: &'static str, _: u32, _: &'static str, v: &T) -> Result<(), TapeError> {
        self.step(Tok::Other(n))?;
        v.serialize(self)
    }
    fn serialize_seq(self, len: Option<usize>) -> Result<TapeSer, TapeError> {
        self.step(Tok::SeqBegin(len))?;
        Ok(self)
    }
    fn serialize_tuple(self, len: usize) -> Result<TapeSer, TapeError> {
        self.step(Tok::TupleBegin(len))?;
        Ok(self)
    }
    fn serialize_tuple_struct(self, _: &'static str, _: usize) -> Result<Self::SerializeTupleStruct, TapeError> {
        Err(TapeError::Custom("unsupported".into()))
    }
    fn serialize_tuple_variant(self, _: &'static str, _: u32, _: &'static str, _: usize) -> Result<Self::SerializeTupleVariant, TapeError> {
        Err(TapeError::Custom("unsupported".into()))
    }
    fn serialize_map(self, len: Option<usize>) -> Result<TapeSer, TapeError> {
        self.step(Tok::MapBegin(len))?;
        Ok(self)
    }
    fn serialize_struct(self, n: &'static str, len: usize) -> Result<TapeSer, TapeError> {
        self.step(Tok::StructBegin(n, len))?;
        Ok(self)
    }
    fn serialize_struct_variant(self, _: &'static str, _: u32, _: &'static str, _: usize) -> Result<Self::SerializeStructVariant, TapeError> {
        Err(TapeError::Custom("unsupported".into()))
    }
}
impl SerializeSeq for TapeSer {
    type Ok = ();
    type Error = TapeError;
    fn serialize_element<T: ?Sized + Serialize>(&mut self, v: &T) -> Result<(), TapeError> {
        v.serialize(self.clone())
    }
    fn end(self) -> Result<(), TapeError> {
        self.step(Tok::SeqEnd)
    }
}
impl SerializeTuple for TapeSer {
    type Ok = ();
    type Error = TapeError;
    fn serialize_element<T: ?Sized + Serialize>(&mut self, v: &T) -> Result<(), TapeError> {
        v.serialize(self.clone())
    }
    fn end(self) -> Result<(), TapeError> {
        self.step(Tok::TupleEnd)
    }
}
impl SerializeMap for TapeSer {
    type Ok = ();
    type Error = TapeError;
    fn serialize_key<T: ?Sized + Serialize>(&mut self, k: &T) -> Result<(), TapeError> {
        k.serialize(self.clone())
    }
    fn serialize_value<T: ?Sized + Serialize>(&mut self, v: &T) -> Result<(), TapeError> {
        v.serialize(self.clone())
    }
    fn end(self) -> Result<(), TapeError> {
        self.step(Tok::MapEnd)
    }
}
impl SerializeStruct for TapeSer {
    type Ok = ();
    type Error = TapeError;
    fn serialize_field<T: ?Sized + Serialize>(&mut self, key: &'static str, v: &T) -> Result<(), TapeError> {
        self.step(Tok::Field(key))?;
        v.serialize(self.clone())
    }
    fn end(self) -> Result<(), TapeError> {
        self.step(Tok::StructEnd)
    }
}

// ------------------------------------------------------------------------------------------
// replaying deserializer

const ENTRY_POINTS: [&str; 29] = [
    "any", "ignored_any", "option", "bool", "i8", "i16", "i32", "i64", "u8", "u16", "u32", "u64", "f32", "f64", "char", "str", "string", "bytes", "byte_buf", "unit", "unit_struct",
    "newtype_struct", "seq", "tuple", "tuple_struct", "map", "struct", "enum", "identifier",
];

pub struct TapeDe<'t> {
    toks: &'t [Tok],
    pos: &'t Cell<usize>,
    calls: &'t Cell<u32>,
    fail_at: u32,
    /// names of the Deserializer entry points used, in order (transparency of the call sequence)
    log: &'t Cell<u32>,
    /// a format that is not self-describing: `deserialize_any`/`deserialize_ignored_any` are
    /// refused, only the typed entry points work
    strict: bool,
}
impl<'t> TapeDe<'t> {
    fn sub(&self) -> TapeDe<'t> {
        TapeDe { toks: self.toks, pos: self.pos, calls: self.calls, fail_at: self.fail_at, log: self.log, strict: self.strict }
    }
    fn note(&self, name: &'static str) {
        let ix = ENTRY_POINTS.iter().position(|n| *n == name).expect("entry point name");
        self.log.set(self.log.get() | 1 << ix);
    }
    fn step(&self) -> Result<(), TapeError> {
        let c = self.calls.get() + 1;
        self.calls.set(c);
        if c == self.fail_at {
            if PANIC_MODE.load(std::sync::atomic::Ordering::Relaxed) {
                panic!("injected: deserializer callback #{}", c);
            }
            return Err(TapeError::Injected(c));
        }
        Ok(())
    }
    fn peek(&self) -> Option<&'t Tok> {
        self.toks.get(self.pos.get())
    }
    fn next(&self) -> Result<&'t Tok, TapeError> {
        let t = self.toks.get(self.pos.get()).ok_or(TapeError::Custom("end of tape".into()))?;
        self.pos.set(self.pos.get() + 1);
        Ok(t)
    }
}

impl<'t> TapeDe<'t> {
    fn any_inner<'de, V: Visitor<'de>>(self, v: V) -> Result<V::Value, TapeError> {
        self.step()?;
        match self.next()? {
            Tok::Bool(b) => v.visit_bool(*b),
            Tok::U8(x) => v.visit_u8(*x),
            Tok::U32(x) => v.visit_u32(*x),
            Tok::U64(x) => v.visit_u64(*x),
            Tok::I64(x) => v.visit_i64(*x),
            Tok::Str(s) => v.visit_str(s),
            Tok::None => v.visit_none(),
            Tok::Some => v.visit_some(self.sub()),
            Tok::Unit => v.visit_unit(),
            Tok::SeqBegin(_) => v.visit_seq(TapeSeq { de: self.sub(), end: Tok::SeqEnd }),
            Tok::TupleBegin(_) => v.visit_seq(TapeSeq { de: self.sub(), end: Tok::TupleEnd }),
            Tok::MapBegin(_) => v.visit_map(TapeMap { de: self.sub(), end: Tok::MapEnd }),
            Tok::StructBegin(..) => v.visit_map(TapeMap { de: self.sub(), end: Tok::StructEnd }),
            t => Err(TapeError::Custom(format!("unexpected token {:?}", t))),
        }
    }
}

struct TapeSeq<'t> {
    de: TapeDe<'t>,
    end: Tok,
}
impl<'de, 't> SeqAccess<'de> for TapeSeq<'t> {
    type Error = TapeError;
    fn next_element_seed<S: DeserializeSeed<'de>>(&mut self, seed: S) -> Result<Option<S::Value>, TapeError> {
        self.de.step()?;
        if self.de.peek() == Some(&self.end) {
            self.de.next()?;
            return Ok(None);
        }
        seed.deserialize(self.de.sub()).map(Some)
    }
}
struct TapeMap<'t> {
    de: TapeDe<'t>,
    end: Tok,
}
impl<'de, 't> MapAccess<'de> for TapeMap<'t> {
    type Error = TapeError;
    fn next_key_seed<S: DeserializeSeed<'de>>(&mut self, seed: S) -> Result<Option<S::Value>, TapeError> {
        self.de.step()?;
        if self.de.peek() == Some(&self.end) {
            self.de.next()?;
            return Ok(None);
        }
        match self.de.peek() {
            Some(Tok::Field(name)) => {
                self.de.next()?;
                seed.deserialize(de::value::StrDeserializer::<TapeError>::new(name)).map(Some)
            }
            _ => seed.deserialize(self.de.sub()).map(Some),
        }
    }
    fn next_value_seed<S: DeserializeSeed<'de>>(&mut self, seed: S) -> Result<S::Value, TapeError> {
        self.de.step()?;
        seed.deserialize(self.de.sub())
    }
}

impl<'de, 't> Deserializer<'de> for TapeDe<'t> {
    type Error = TapeError;
    fn deserialize_any<V: Visitor<'de>>(self, v: V) -> Result<V::Value, TapeError> {
        self.note("any");
        if self.strict {
            return Err(TapeError::Custom("this format is not self-describing: deserialize_any".into()));
        }
        self.any_inner(v)
    }
    fn deserialize_ignored_any<V: Visitor<'de>>(self, v: V) -> Result<V::Value, TapeError> {
        self.note("ignored_any");
        if self.strict {
            return Err(TapeError::Custom("this format is not self-describing: deserialize_ignored_any".into()));
        }
        self.any_inner(v)
    }
    fn deserialize_option<V: Visitor<'de>>(self, v: V) -> Result<V::Value, TapeError> {
        self.note("option");
        self.step()?;
        match self.peek() {
            Some(Tok::None) => {
                self.next()?;
                v.visit_none()
            }
            Some(Tok::Some) => {
                self.next()?;
                v.visit_some(self.sub())
            }
            _ => v.visit_some(self.sub()),
        }
    }
    fn deserialize_bool<V: Visitor<'de>>(self, v: V) -> Result<V::Value, TapeError> { self.note("bool"); self.any_inner(v) }
    fn deserialize_i8<V: Visitor<'de>>(self, v: V) -> Result<V::Value, TapeError> { self.note("i8"); self.any_inner(v) }
    fn deserialize_i16<V: Visitor<'de>>(self, v: V) -> Result<V::Value, TapeError> { self.note("i16"); self.any_inner(v) }
    fn deserialize_i32<V: Visitor<'de>>(self, v: V) -> Result<V::Value, TapeError> { self.note("i32"); self.any_inner(v) }
    fn deserialize_i64<V: Visitor<'de>>(self, v: V) -> Result<V::Value, TapeError> { self.note("i64"); self.any_inner(v) }
    fn deserialize_u8<V: Visitor<'de>>(self, v: V) -> Result<V::Value, TapeError> { self.note("u8"); self.any_inner(v) }
    fn deserialize_u16<V: Visitor<'de>>(self, v: V) -> Result<V::Value, TapeError> { self.note("u16"); self.any_inner(v) }
    fn deserialize_u32<V: Visitor<'de>>(self, v: V) -> Result<V::Value, TapeError> { self.note("u32"); self.any_inner(v) }
    fn deserialize_u64<V: Visitor<'de>>(self, v: V) -> Result<V::Value, TapeError> { self.note("u64"); self.any_inner(v) }
    fn deserialize_f32<V: Visitor<'de>>(self, v: V) -> Result<V::Value, TapeError> { self.note("f32"); self.any_inner(v) }
    fn deserialize_f64<V: Visitor<'de>>(self, v: V) -> Result<V::Value, TapeError> { self.note("f64"); self.any_inner(v) }
    fn deserialize_char<V: Visitor<'de>>(self, v: V) -> Result<V::Value, TapeError> { self.note("char"); self.any_inner(v) }
    fn deserialize_str<V: Visitor<'de>>(self, v: V) -> Result<V::Value, TapeError> { self.note("str"); self.any_inner(v) }
    fn deserialize_string<V: Visitor<'de>>(self, v: V) -> Result<V::Value, TapeError> { self.note("string"); self.any_inner(v) }
    fn deserialize_bytes<V: Visitor<'de>>(self, v: V) -> Result<V::Value, TapeError> { self.note("bytes"); self.any_inner(v) }
    fn deserialize_byte_buf<V: Visitor<'de>>(self, v: V) -> Result<V::Value, TapeError> { self.note("byte_buf"); self.any_inner(v) }
    fn deserialize_unit<V: Visitor<'de>>(self, v: V) -> Result<V::Value, TapeError> { self.note("unit"); self.any_inner(v) }
    fn deserialize_unit_struct<V: Visitor<'de>>(self, _n: &'static str, v: V) -> Result<V::Value, TapeError> { self.note("unit_struct"); self.any_inner(v) }
    fn deserialize_newtype_struct<V: Visitor<'de>>(self, _n: &'static str, v: V) -> Result<V::Value, TapeError> { self.note("newtype_struct"); self.any_inner(v) }
    fn deserialize_seq<V: Visitor<'de>>(self, v: V) -> Result<V::Value, TapeError> { self.note("seq"); self.any_inner(v) }
    fn deserialize_tuple<V: Visitor<'de>>(self, _l: usize, v: V) -> Result<V::Value, TapeError> { self.note("tuple"); self.any_inner(v) }
    fn deserialize_tuple_struct<V: Visitor<'de>>(self, _n: &'static str, _l: usize, v: V) -> Result<V::Value, TapeError> { self.note("tuple_struct"); self.any_inner(v) }
    fn deserialize_map<V: Visitor<'de>>(self, v: V) -> Result<V::Value, TapeError> { self.note("map"); self.any_inner(v) }
    fn deserialize_struct<V: Visitor<'de>>(self, _n: &'static str, _f: &'static [&'static str], v: V) -> Result<V::Value, TapeError> { self.note("struct"); self.any_inner(v) }
    fn deserialize_enum<V: Visitor<'de>>(self, _n: &'static str, _f: &'static [&'static str], v: V) -> Result<V::Value, TapeError> { self.note("enum"); self.any_inner(v) }
    fn deserialize_identifier<V: Visitor<'de>>(self, v: V) -> Result<V::Value, TapeError> { self.note("identifier"); self.any_inner(v) }
}

// ------------------------------------------------------------------------------------------
// payload family

/// An identity-tracked piece of a value: serialises as its number, deserialises into a fresh
/// tracked piece (so partial construction followed by an error is observable).
pub struct Piece {
    t: T4A4,
    v: u32,
}
impl Piece {
    fn new(v: u32) -> Piece {
        Piece { t: T4A4::fresh(), v }
    }
}
impl PartialEq for Piece {
    fn eq(&self, o: &Piece) -> bool {
        let _ = (self.t.raw(), o.t.raw());
        self.v == o.v
    }
}
impl fmt::Debug for Piece {
    fn fmt(&self, f: &mut fmt::Formatter<'_>) -> fmt::Result {
        write!(f, "Piece({})", self.v)
    }
}
impl Serialize for Piece {
    fn serialize<S: Serializer>(&self, s: S) -> Result<S::Ok, S::Error> {
        s.serialize_u32(self.v)
    }
}
impl<'de> Deserialize<'de> for Piece {
    fn deserialize<D: Deserializer<'de>>(d: D) -> Result<Piece, D::Error> {
        u32::deserialize(d).map(Piece::new)
    }
}

/// Nested struct with hand-written impls.
#[derive(Debug, PartialEq)]
pub struct Nested {
    a: Piece,
    b: Vec<Piece>,
    c: String,
    d: Option<Box<Nested>>,
}
impl Serialize for Nested {
    fn serialize<S: Serializer>(&self, s: S) -> Result<S::Ok, S::Error> {
        let mut st = s.serialize_struct("Nested", 4)?;
        st.serialize_field("a", &self.a)?;
        st.serialize_field("b", &self.b)?;
        st.serialize_field("c", &self.c)?;
        st.serialize_field("d", &self.d)?;
        st.end()
    }
}
impl<'de> Deserialize<'de> for Nested {
    fn deserialize<D: Deserializer<'de>>(d: D) -> Result<Nested, D::Error> {
        struct V;
        impl<'de> Visitor<'de> for V {
            type Value = Nested;
            fn expecting(&self, f: &mut fmt::Formatter<'_>) -> fmt::Result {
                f.write_str("struct Nested")
            }
            fn visit_map<A: MapAccess<'de>>(self, mut m: A) -> Result<Nested, A::Error> {
                let (mut a, mut b, mut c, mut d) = (None, None, None, None);
                while let Some(k) = m.next_key::<String>()? {
                    match k.as_str() {
                        "a" => a = Some(m.next_value::<Piece>()?),
                        "b" => b = Some(m.next_value::<Vec<Piece>>()?),
                        "c" => c = Some(m.next_value::<String>()?),
                        "d" => d = Some(m.next_value::<Option<Box<Nested>>>()?),
                        _ => return Err(de::Error::custom("unknown field")),
                    }
                }
                Ok(Nested {
                    a: a.ok_or_else(|| de::Error::missing_field("a"))?,
                    b: b.ok_or_else(|| de::Error::missing_field("b"))?,
                    c: c.ok_or_else(|| de::Error::missing_field("c"))?,
                    d: d.ok_or_else(|| de::Error::missing_field("d"))?,
                })
            }
        }
        d.deserialize_struct("Nested", &["a", "b", "c", "d"], V)
    }
}

pub trait TestVal: Serialize + for<'de> Deserialize<'de> + PartialEq + fmt::Debug + Sized {
    const NAME: &'static str;
    fn gen(r: &mut Rng) -> Self;
}
fn gen_string(r: &mut Rng) -> String {
    let n = r.below(9);
    (0..n).map(|_| (b'a' + r.below(26) as u8) as char).collect()
}
impl TestVal for u32 {
    const NAME: &'static str = "u32";
    fn gen(r: &mut Rng) -> Self {
        r.next_u64() as u32
    }
}
impl TestVal for String {
    const NAME: &'static str = "String";
    fn gen(r: &mut Rng) -> Self {
        gen_string(r)
    }
}
impl TestVal for (u8, String) {
    const NAME: &'static str = "(u8,String)";
    fn gen(r: &mut Rng) -> Self {
        (r.next_u64() as u8, gen_string(r))
    }
}
impl TestVal for Vec<Piece> {
    const NAME: &'static str = "Vec<Piece>";
    fn gen(r: &mut Rng) -> Self {
        let n = r.below(6);
        (0..n).map(|_| Piece::new(r.next_u64() as u32 % 1000)).collect()
    }
}
impl TestVal for Option<Piece> {
    const NAME: &'static str = "Option<Piece>";
    fn gen(r: &mut Rng) -> Self {
        if r.pct(30) {
            None
        } else {
            Some(Piece::new(r.next_u64() as u32 % 1000))
        }
    }
}
impl TestVal for () {
    const NAME: &'static str = "()";
    fn gen(_r: &mut Rng) -> Self {}
}
/// Zero-sized tag whose hand-written impls carry meaning: serialises as "v1", and its
/// deserialiser accepts nothing else.
#[derive(Debug, PartialEq)]
pub struct Tag;
impl Serialize for Tag {
    fn serialize<S: Serializer>(&self, s: S) -> Result<S::Ok, S::Error> {
        s.serialize_str("v1")
    }
}
impl<'de> Deserialize<'de> for Tag {
    fn deserialize<D: Deserializer<'de>>(d: D) -> Result<Tag, D::Error> {
        let s = String::deserialize(d)?;
        if s == "v1" {
            Ok(Tag)
        } else {
            Err(de::Error::custom("unsupported tag"))
        }
    }
}
impl TestVal for Tag {
    const NAME: &'static str = "Tag(ZST)";
    fn gen(_r: &mut Rng) -> Self {
        Tag
    }
}
impl TestVal for [Piece; 9] {
    const NAME: &'static str = "[Piece;9]";
    fn gen(r: &mut Rng) -> Self {
        std::array::from_fn(|_| Piece::new(r.next_u64() as u32 % 1000))
    }
}
impl TestVal for (Nested, String, u64) {
    const NAME: &'static str = "(Nested,String,u64)";
    fn gen(r: &mut Rng) -> Self {
        (<Nested as TestVal>::gen(r), gen_string(r), r.next_u64())
    }
}
impl TestVal for Nested {
    const NAME: &'static str = "Nested";
    fn gen(r: &mut Rng) -> Self {
        fn go(r: &mut Rng, depth: u32) -> Nested {
            Nested {
                a: Piece::new(r.next_u64() as u32 % 1000),
                b: {
                    let n = r.below(4);
                    (0..n).map(|_| Piece::new(r.next_u64() as u32 % 1000)).collect()
                },
                c: gen_string(r),
                d: if depth < 2 && r.pct(40) { Some(Box::new(go(r, depth + 1))) } else { None },
            }
        }
        go(r, 0)
    }
}

// ------------------------------------------------------------------------------------------
// the checks

#[derive(Default, Clone, Debug)]
pub struct SerdeStats {
    pub values: u64,
    pub evaluations: u64,
    pub ser_fault_points: u64,
    pub de_fault_points: u64,
    pub ser_faults_fired: u64,
    pub de_faults_fired: u64,
    pub fresh_blocks_checked: u64,
    pub value_deserializer_cases: u64,
    pub by_type: [u64; 10],
    pub wrong_input_cases: u64,
    pub de_panic_points: u64,
    pub unwind_blocks_left: u64,
    pub wrong_input_rejected: u64,
    pub strict_cases: u64,
    pub entry_points: std::collections::BTreeSet<&'static str>,
    pub distinct: std::collections::HashSet<u64>,
    pub samples: Vec<String>,
}

fn live_ids() -> usize {
    reg(|r| r.states.iter().filter(|s| **s == IdState::Live).count())
}
fn tracked<R>(f: impl FnOnce() -> R) -> R {
    let prev = ledger::set_track(true);
    let r = f();
    ledger::set_track(prev);
    r
}
fn hash_toks(t: &[Tok]) -> u64 {
    let mut h = 0xcbf2_9ce4_8422_2325u64;
    for b in format!("{:?}", t).bytes() {
        h ^= b as u64;
        h = h.wrapping_mul(0x100_0000_01b3);
    }
    h
}

fn ser_with<T: Serialize>(v: &T, k: u32) -> (Vec<Tok>, u32, Result<(), TapeError>) {
    let s = TapeSer::new(k);
    let r = v.serialize(s.clone());
    let (t, c) = s.result();
    (t, c, r)
}

/// One comparison of `T`, `Arc<T>` and `UniqueArc<T>` over the same input: same outcome (equal
/// value in a fresh solely-owned block of the right layout, or the same error), nothing left
/// behind. Returns whether the value's own deserialiser failed.
fn de_compare<T: TestVal>(base: &[Tok], k: u32, strict: bool, what: &str, st: &mut SerdeStats) -> bool {
    let (want_size, want_align, _) = arcinner(std::mem::size_of::<T>(), std::mem::align_of::<T>());
    let dlog = Cell::new(0u32);
    let run_t = || {
        let (pos, calls) = (Cell::new(0), Cell::new(0));
        T::deserialize(TapeDe { toks: base, pos: &pos, calls: &calls, fail_at: k, log: &dlog, strict })
    };
    let rt = run_t();
    let failed = rt.is_err();
    let want_err = rt.as_ref().err().cloned();
    let want_val = rt.ok();
    // nothing may linger from the plain run
    drop(want_val);
    let want_val = run_t().ok();
    let base_ids = live_ids();
    let mark = ledger::event_count();
    let blocks_before = ledger::live_count();
    // Arc<T>
    let ra = tracked(|| {
        let (pos, calls) = (Cell::new(0), Cell::new(0));
        Arc::<T>::deserialize(TapeDe { toks: base, pos: &pos, calls: &calls, fail_at: k, log: &dlog, strict })
    });
    let ru = tracked(|| {
        let (pos, calls) = (Cell::new(0), Cell::new(0));
        UniqueArc::<T>::deserialize(TapeDe { toks: base, pos: &pos, calls: &calls, fail_at: k, log: &dlog, strict })
    });
    match (&want_val, ra, ru) {
        (Some(w), Ok(a), Ok(u)) => {
            if *a != *w || *u != *w {
                violation("serde:de-differs", format!("deserialising Arc/UniqueArc<{}> gave {:?} / {:?}, the value's own deserialiser {:?}", T::NAME, *a, *u, w));
            }
            if Arc::count(&a) != 1 || !a.is_unique() {
                violation("count-mismatch", format!("a freshly deserialised Arc<{}> reports count {}", T::NAME, Arc::count(&a)));
            }
            // fresh blocks of the right layout, allocated during the call
            let hp = a.heap_ptr() as usize;
            let b = match ledger::lookup(hp) {
                Some(b) => b,
                None => violation("serde:not-fresh", format!("a deserialised Arc<{}> does not live in a block allocated during the call", T::NAME)),
            };
            let mut fresh = false;
            for i in mark..ledger::event_count() {
                let e = ledger::event_at(i);
                if e.kind == ledger::EV_ALLOC && e.block == b.id {
                    fresh = true;
                }
            }
            if !fresh {
                violation("serde:not-fresh", format!("a deserialised Arc<{}> reuses an allocation that existed before the call", T::NAME));
            }
            if b.size < want_size || b.align < want_align {
                violation("layout:alloc", format!("deserialised Arc<{}>: block size {} align {}, counter+payload need size {} align {}", T::NAME, b.size, b.align, want_size, want_align));
            }
            // a second deserialisation is another allocation
            let a2 = tracked(|| {
                let (pos, calls) = (Cell::new(0), Cell::new(0));
                Arc::<T>::deserialize(TapeDe { toks: base, pos: &pos, calls: &calls, fail_at: 0, log: &dlog, strict })
            });
            if let Ok(a2) = &a2 {
                if Arc::ptr_eq(&a, a2) || Arc::count(&a) != 1 {
                    violation("serde:not-fresh", format!("two deserialisations of Arc<{}> share an allocation", T::NAME));
                }
            }
            st.fresh_blocks_checked += 1;
            tracked(|| {
                drop(a2);
                drop(a);
                drop(u);
            });
        }
        (None, Err(ea), Err(eu)) => {
            let w = want_err.clone().unwrap();
            if ea != w || eu != w {
                violation("serde:error-changed", format!("deserialising Arc/UniqueArc<{}> ({}) failed with {:?} / {:?}, the value's own deserialiser with {:?}", T::NAME, what, ea, eu, w));
            }
        }
        (w, ra, ru) => {
            violation(
                "serde:de-differs",
                format!("deserialising {} ({}, fault at call {}): value ok={}, Arc ok={}, UniqueArc ok={}", T::NAME, what, k, w.is_some(), ra.is_ok(), ru.is_ok()),
            );
        }
    }
    if ledger::live_count() != blocks_before {
        violation(
            "leak:block",
            format!("deserialising Arc/UniqueArc<{}> ({}, fault at call {}) left {} block(s) behind", T::NAME, what, k, ledger::live_count() as i64 - blocks_before as i64),
        );
    }
    if live_ids() != base_ids {
        violation(
            "leak:identity",
            format!("deserialising Arc/UniqueArc<{}> ({}, fault at call {}): {} piece(s) built by the partial value were not destroyed", T::NAME, what, k, live_ids() as i64 - base_ids as i64),
        );
    }
    drop(want_val);
    for (i, e) in ENTRY_POINTS.iter().enumerate() {
        if dlog.get() >> i & 1 == 1 {
            st.entry_points.insert(*e);
        }
    }
    failed
}

fn check_type<T: TestVal>(seed: u64, only_k: Option<(bool, u32)>, st: &mut SerdeStats, ctx: &dyn Fn(&str)) {
    reset_registry();
    let ix = ["u32", "String", "(u8,String)", "Vec<Piece>", "Option<Piece>", "Nested", "[Piece;9]", "(Nested,String,u64)", "()", "Tag(ZST)"].iter().position(|n| *n == T::NAME).unwrap();
    st.by_type[ix] += 1;
    st.values += 1;
    let make = || T::gen(&mut Rng::new(seed));
    // ---- serialisation: Arc<T>, UniqueArc<T> and T drive the serializer identically
    let plain = make();
    let arc = tracked(|| Arc::new(make()));
    let uni = tracked(|| UniqueArc::new(make()));
    let (base, ncalls, r0) = ser_with(&plain, 0);
    if r0.is_err() {
        triomphe_verif_rt::harness_error("fault-free serialisation of the plain value failed");
    }
    st.distinct.insert(hash_toks(&base));
    if st.samples.len() < 3 {
        st.samples.push(format!("{} = {:?} -> tape {:?}", T::NAME, plain, base));
    }
    let ks: Vec<u32> = match only_k {
        Some((true, k)) => vec![k],
        Some((false, _)) => vec![],
        None => (0..=ncalls + 1).collect(),
    };
    for k in ks {
        ctx(&format!("ser {}", k));
        let a = ser_with(&plain, k);
        let b = ser_with(&arc, k);
        let c = ser_with(&uni, k);
        st.evaluations += 1;
        st.ser_fault_points += 1;
        if a.2.is_err() {
            st.ser_faults_fired += 1;
        }
        if a != b {
            violation(
                "serde:ser-differs",
                format!("serialising Arc<{}> (fault at call {}) made calls {:?} -> {:?}, the value itself {:?} -> {:?}", T::NAME, k, b.0, b.2, a.0, a.2),
            );
        }
        if a != c {
            violation(
                "serde:ser-differs",
                format!("serialising UniqueArc<{}> (fault at call {}) made calls {:?} -> {:?}, the value itself {:?} -> {:?}", T::NAME, k, c.0, c.2, a.0, a.2),
            );
        }
        if Arc::count(&arc) != 1 {
            violation("count-mismatch", format!("serialising Arc<{}> changed its count to {}", T::NAME, Arc::count(&arc)));
        }
    }
    tracked(|| {
        drop(arc);
        drop(uni);
    });
    drop(plain);
    if live_ids() != 0 || ledger::live_count() != 0 {
        violation("leak:block", format!("after serialising and dropping Arc/UniqueArc<{}>: {} piece(s) and {} block(s) still alive", T::NAME, live_ids(), ledger::live_count()));
    }
    // ---- deserialisation from the tape
    let dcalls = {
        let (pos, calls) = (Cell::new(0), Cell::new(0));
        let r = T::deserialize(TapeDe { toks: &base, pos: &pos, calls: &calls, fail_at: 0, log: &Cell::new(0), strict: false });
        match r {
            Ok(v) => {
                let again = make();
                if v != again {
                    triomphe_verif_rt::harness_error("tape round trip of the plain value is not the identity");
                }
            }
            Err(e) => triomphe_verif_rt::harness_error(&format!("fault-free deserialisation of the plain value failed: {:?}", e)),
        }
        calls.get()
    };
    let ks: Vec<u32> = match only_k {
        Some((false, k)) => vec![k],
        Some((true, _)) => vec![],
        None => (0..=dcalls + 1).collect(),
    };
    for k in ks {
        ctx(&format!("de {}", k));
        st.evaluations += 1;
        st.de_fault_points += 1;
        if de_compare::<T>(&base, k, false, "the value's own tape", st) {
            st.de_faults_fired += 1;
        }
    }
    if only_k.is_none() {
        // the same tape through a format that is not self-describing (typed entry points only)
        ctx("de strict");
        let ok_strict = {
            let (pos, calls) = (Cell::new(0), Cell::new(0));
            T::deserialize(TapeDe { toks: &base, pos: &pos, calls: &calls, fail_at: 0, log: &Cell::new(0), strict: true }).is_ok()
        };
        if ok_strict {
            st.strict_cases += 1;
            st.evaluations += 1;
            de_compare::<T>(&base, 0, true, "typed-entry-points-only format", st);
        }
        // input that was written for another type: whatever the value's own deserialiser makes of
        // it (usually a type error, sometimes a value), the handles must make the same of it
        ctx("de wrong-input");
        let mut r = Rng::new(seed ^ 0x5bd1_e995);
        for _ in 0..2 {
            let other: Vec<Tok> = match r.below(7) {
                0 => ser_with(&u32::gen(&mut r), 0).0,
                1 => ser_with(&String::gen(&mut r), 0).0,
                2 => ser_with(&<(u8, String)>::gen(&mut r), 0).0,
                3 => ser_with(&<Vec<Piece>>::gen(&mut r), 0).0,
                4 => ser_with(&<Option<Piece>>::gen(&mut r), 0).0,
                5 => ser_with(&Nested::gen(&mut r), 0).0,
                _ => ser_with(&(), 0).0,
            };
            st.wrong_input_cases += 1;
            st.evaluations += 1;
            if de_compare::<T>(&other, 0, false, "input written for another type", st) {
                st.wrong_input_rejected += 1;
            }
        }
    }
    let mut tolerated = 0usize;
    if only_k.is_none() || matches!(only_k, Some((false, 0))) {
        // ---- callbacks that unwind instead of returning an error. C17 speaks of errors, C07
        // tolerates leaks on unwinding: what is required is that the panic propagates, that nothing
        // is destroyed twice, and that whatever the partial value had built is destroyed exactly as
        // when the value is deserialised on its own. Blocks left behind are counted, not reported.
        ctx("de 0");
        use std::panic::{catch_unwind, AssertUnwindSafe};
        for k in 1..=dcalls {
            st.evaluations += 1;
            st.de_panic_points += 1;
            PANIC_MODE.store(true, std::sync::atomic::Ordering::Relaxed);
            let ids0 = live_ids();
            let rt = catch_unwind(AssertUnwindSafe(|| {
                let (pos, calls) = (Cell::new(0), Cell::new(0));
                T::deserialize(TapeDe { toks: &base, pos: &pos, calls: &calls, fail_at: k, log: &Cell::new(0), strict: false })
            }));
            let t_unwound = rt.is_err();
            drop(rt);
            let t_left = live_ids() as i64 - ids0 as i64;
            let ids1 = live_ids();
            let blocks1 = ledger::live_count();
            let ra = tracked(|| {
                catch_unwind(AssertUnwindSafe(|| {
                    let (pos, calls) = (Cell::new(0), Cell::new(0));
                    Arc::<T>::deserialize(TapeDe { toks: &base, pos: &pos, calls: &calls, fail_at: k, log: &Cell::new(0), strict: false })
                }))
            });
            let ru = tracked(|| {
                catch_unwind(AssertUnwindSafe(|| {
                    let (pos, calls) = (Cell::new(0), Cell::new(0));
                    UniqueArc::<T>::deserialize(TapeDe { toks: &base, pos: &pos, calls: &calls, fail_at: k, log: &Cell::new(0), strict: false })
                }))
            });
            PANIC_MODE.store(false, std::sync::atomic::Ordering::Relaxed);
            let (a_unwound, u_unwound) = (ra.is_err(), ru.is_err());
            tracked(|| {
                drop(ra);
                drop(ru);
            });
            if t_unwound != a_unwound || t_unwound != u_unwound {
                violation(
                    "serde:de-differs",
                    format!("deserialising {} with callback {} unwinding: the value's own deserialiser unwound={}, Arc unwound={}, UniqueArc unwound={}", T::NAME, k, t_unwound, a_unwound, u_unwound),
                );
            }
            let left = live_ids() as i64 - ids1 as i64;
            if left != 2 * t_left {
                violation(
                    if left < 2 * t_left { "double-drop" } else { "leak:identity" },
                    format!("deserialising Arc/UniqueArc<{}> with callback {} unwinding left {} piece(s) alive, the value's own deserialiser leaves {} each time", T::NAME, k, left, t_left),
                );
            }
            let behind = ledger::live_count() - blocks1;
            st.unwind_blocks_left += behind as u64;
            tolerated += behind;
        }
    }
    let rep = ledger::end_run();
    if rep.nleaks != tolerated || rep.nwaf != 0 {
        violation("leak:block", format!("{}: {} block(s) leaked, {} written after free", T::NAME, rep.nleaks, rep.nwaf));
    }
}

/// serde's own in-memory value deserialisers as a second, independent deserializer family.
fn check_value_deserializers(seed: u64, st: &mut SerdeStats) {
    reset_registry();
    let mut r = Rng::new(seed);
    let x = r.next_u64() as u32;
    let a: Result<Arc<u32>, TapeError> = tracked(|| Arc::deserialize(IntoDeserializer::<TapeError>::into_deserializer(x)));
    let u: Result<UniqueArc<u32>, TapeError> = tracked(|| UniqueArc::deserialize(IntoDeserializer::<TapeError>::into_deserializer(x)));
    match (a, u) {
        (Ok(a), Ok(u)) => {
            if *a != x || *u != x || Arc::count(&a) != 1 {
                violation("serde:de-differs", format!("U32Deserializer({}) -> Arc {} / UniqueArc {} count {}", x, *a, *u, Arc::count(&a)));
            }
            tracked(|| drop((a, u)));
        }
        _ => violation("serde:de-differs", "U32Deserializer failed through Arc/UniqueArc".into()),
    }
    let s = gen_string(&mut r);
    let a: Result<Arc<String>, TapeError> = tracked(|| Arc::deserialize(IntoDeserializer::<TapeError>::into_deserializer(s.clone())));
    match a {
        Ok(a) => {
            if *a != s || Arc::count(&a) != 1 {
                violation("serde:de-differs", format!("StringDeserializer({:?}) -> Arc {:?}", s, *a));
            }
            tracked(|| drop(a));
        }
        Err(e) => violation("serde:de-differs", format!("StringDeserializer failed through Arc: {:?}", e)),
    }
    let nums: Vec<u32> = (0..r.below(6)).map(|_| r.next_u64() as u32 % 1000).collect();
    let sd = de::value::SeqDeserializer::<_, TapeError>::new(nums.clone().into_iter());
    let a: Result<Arc<Vec<Piece>>, TapeError> = tracked(|| Arc::deserialize(sd));
    match a {
        Ok(a) => {
            let got: Vec<u32> = a.iter().map(|p| p.v).collect();
            if got != nums || Arc::count(&a) != 1 {
                violation("serde:de-differs", format!("SeqDeserializer({:?}) -> Arc {:?}", nums, got));
            }
            tracked(|| drop(a));
        }
        Err(e) => violation("serde:de-differs", format!("SeqDeserializer failed through Arc: {:?}", e)),
    }
    // a sequence with a wrong element type: error passed through, nothing left behind
    let bad = de::value::SeqDeserializer::<_, TapeError>::new(vec!["x", "y"].into_iter());
    let a: Result<Arc<Vec<Piece>>, TapeError> = tracked(|| Arc::deserialize(bad));
    let bad2 = de::value::SeqDeserializer::<_, TapeError>::new(vec!["x", "y"].into_iter());
    let p: Result<Vec<Piece>, TapeError> = Vec::<Piece>::deserialize(bad2);
    match (a, p) {
        (Err(ea), Err(ep)) => {
            if ea != ep {
                violation("serde:error-changed", format!("Arc<Vec<Piece>> failed with {:?}, Vec<Piece> with {:?}", ea, ep));
            }
        }
        _ => violation("serde:de-differs", "a badly typed sequence did not fail identically".into()),
    }
    st.value_deserializer_cases += 4;
    st.evaluations += 4;
    if live_ids() != 0 || ledger::live_count() != 0 {
        violation("leak:block", format!("value deserialisers: {} piece(s) and {} block(s) left behind", live_ids(), ledger::live_count()));
    }
    let _ = ledger::end_run();
}

pub fn run_case(seed: u64, index: u64, only: Option<(bool, u32)>, st: &mut SerdeStats, ctx: &dyn Fn(&str)) {
    let s = mix(seed, index);
    let which = (s % 10) as usize;
    match which {
        0 => check_type::<u32>(s, only, st, ctx),
        1 => check_type::<String>(s, only, st, ctx),
        2 => check_type::<(u8, String)>(s, only, st, ctx),
        3 => check_type::<Vec<Piece>>(s, only, st, ctx),
        4 => check_type::<Option<Piece>>(s, only, st, ctx),
        5 => check_type::<Nested>(s, only, st, ctx),
        6 => check_type::<[Piece; 9]>(s, only, st, ctx),
        7 => check_type::<(Nested, String, u64)>(s, only, st, ctx),
        8 => check_type::<()>(s, only, st, ctx),
        _ => check_type::<Tag>(s, only, st, ctx),
    }
    if only.is_none() && index % 8 == 0 {
        check_value_deserializers(s, st);
    }
}

//! C16 engine: "time compression" of 2^63 forgotten clones. The child process creates a live
//! handle, learns the address of its counter from triomphe's own first atomic access (through
//! the pass-through shim), presets the counter, and performs one clone through the chosen
//! entry point. The parent observes how the process ends.

use crate::family::{Family, F0, F2, F4, F5, F7};
use crate::handle::Probe;
use crate::shapes::Shape;
use std::io::Write;
use std::sync::atomic::Ordering;
use triomphe::{Arc, ArcUnion, HeaderSlice, OffsetArc, ThinArc};
use triomphe_verif_rt::atomic::LAST_ADDR;

pub const ENTRIES: &[&str] = &[
    "arc_sized",
    "arc_slice",
    "arc_dyn",
    "arc_header_slice",
    "arc_str",
    "arc_erased",
    "thin",
    "offset_clone",
    "offset_clone_arc",
    "borrow_clone_arc",
    "union_first",
    "union_second",
    "thin_with_arc",
    "offset_with_arc",
    "borrow_with_arc",
    "with_raw_offset_arc",
    "union_borrow_clone_arc",
    #[cfg(feature = "cfg_a")]
    "arcswap_load_full",
    #[cfg(feature = "cfg_a")]
    "arcswap_thin_load_full",
];

fn say(s: &str) {
    let o = std::io::stdout();
    let mut o = o.lock();
    let _ = writeln!(o, "{}", s);
    let _ = o.flush();
}

fn preset(start: usize) {
    let addr = LAST_ADDR.load(Ordering::Relaxed);
    if addr == 0 {
        say("HARNESS-ERROR no counter address learnt");
        std::process::exit(2);
    }
    unsafe { (*(addr as *const core::sync::atomic::AtomicUsize)).store(start, Ordering::SeqCst) };
}

/// Payload shapes an entry point can be combined with ("entry@shape"): the guard must sit on the
/// real counter for every payload size and alignment (the count is at offset 0, the payload at
/// max(8, align)).
pub const SHAPES: &[&str] = &["", "@w16", "@w64", "@zst"];

/// Runs in the child. Never returns normally through a clone that should have aborted.
/// Set by `--unwinding`: the clone is made from a destructor that runs while the thread is
/// already unwinding from another panic, and that destructor catches whatever the clone raises.
/// A panic raised there is an ordinary, catchable second unwind -- not an abort.
pub static WHILE_UNWINDING: std::sync::atomic::AtomicBool = std::sync::atomic::AtomicBool::new(false);

struct OnDrop<G: FnMut()>(G);
impl<G: FnMut()> Drop for OnDrop<G> {
    fn drop(&mut self) {
        (self.0)()
    }
}
struct FirstPanic;

pub fn child(entry: &str, start: usize) -> i32 {
    match entry.split_once('@') {
        None => child_f::<F0>(entry, start),
        Some((e, "w16")) => child_f::<F2>(e, start),
        Some((e, "w64")) => child_f::<F4>(e, start),
        Some((e, "zst")) => child_f::<F5>(e, start),
        _ => {
            say("HARNESS-ERROR unknown payload shape");
            2
        }
    }
}

fn child_f<F: Family>(entry: &str, start: usize) -> i32 {
    type E = <F7 as Family>::E; // Copy elements: nothing to destroy when handles are forgotten
    macro_rules! scenario {
        ($make:expr, $count:expr, $clone:expr, $valid:expr) => {{
            let h = $make;
            LAST_ADDR.store(0, Ordering::Relaxed);
            let c0 = $count(&h);
            if c0 != 1 {
                say(&format!("HARNESS-ERROR fresh handle reports count {}", c0));
                return 2;
            }
            preset(start);
            let before = $count(&h);
            say(&format!("BEFORE-CLONE count={}", before));
            let r = if WHILE_UNWINDING.load(Ordering::Relaxed) {
                let mut out = None;
                let _ = std::panic::catch_unwind(std::panic::AssertUnwindSafe(|| {
                    let _g = OnDrop(|| {
                        out = Some(std::panic::catch_unwind(std::panic::AssertUnwindSafe(|| $clone(&h))));
                    });
                    std::panic::panic_any(FirstPanic);
                }));
                match out {
                    Some(r) => r,
                    None => {
                        say("HARNESS-ERROR the unwinding destructor did not run");
                        return 2;
                    }
                }
            } else {
                std::panic::catch_unwind(std::panic::AssertUnwindSafe(|| $clone(&h)))
            };
            match r {
                Ok(n) => {
                    let after = $count(&h);
                    let ok = $valid(&h, &n);
                    say(&format!("AFTER-CLONE count={} valid={}", after, ok));
                    std::mem::forget(n);
                    std::mem::forget(h);
                    0
                }
                Err(_) => {
                    say("CAUGHT");
                    std::mem::forget(h);
                    0
                }
            }
        }};
    }
    match entry {
        "arc_sized" => scenario!(Arc::new(F::P::fresh()), |h: &Arc<F::P>| Arc::strong_count(h), |h: &Arc<F::P>| h.clone(), |h: &Arc<F::P>, n: &Arc<F::P>| Arc::ptr_eq(h, n) && n.raw() == h.raw()),
        "arc_slice" => scenario!(
            Arc::<[E]>::from(vec![E::fresh(), E::fresh()]),
            |h: &Arc<[E]>| Arc::strong_count(h),
            |h: &Arc<[E]>| h.clone(),
            |h: &Arc<[E]>, n: &Arc<[E]>| Arc::ptr_eq(h, n) && n.len() == 2
        ),
        "arc_dyn" => scenario!(
            {
                let a: Arc<F::P> = Arc::new(F::P::fresh());
                let p = Arc::into_raw(a) as *const dyn Probe;
                unsafe { Arc::<dyn Probe>::from_raw(p) }
            },
            |h: &Arc<dyn Probe>| Arc::strong_count(h),
            |h: &Arc<dyn Probe>| h.clone(),
            |h: &Arc<dyn Probe>, n: &Arc<dyn Probe>| Arc::ptr_eq(h, n) && n.probe_id() == h.probe_id()
        ),
        "arc_header_slice" => scenario!(
            Arc::from_header_and_slice(F::H::fresh(), &[E::fresh(), E::fresh(), E::fresh()]),
            |h: &Arc<HeaderSlice<F::H, [E]>>| Arc::count(h),
            |h: &Arc<HeaderSlice<F::H, [E]>>| h.clone(),
            |h: &Arc<HeaderSlice<F::H, [E]>>, n: &Arc<HeaderSlice<F::H, [E]>>| Arc::ptr_eq(h, n) && n.slice.len() == 3
        ),
        "arc_str" => scenario!(Arc::<str>::from("overflow"), |h: &Arc<str>| Arc::strong_count(h), |h: &Arc<str>| h.clone(), |h: &Arc<str>, n: &Arc<str>| Arc::ptr_eq(h, n) && &**n == "overflow"),
        "arc_erased" => scenario!(
            Arc::<HeaderSlice<(), F::P>>::from(Arc::new(F::P::fresh())),
            |h: &Arc<HeaderSlice<(), F::P>>| Arc::strong_count(h),
            |h: &Arc<HeaderSlice<(), F::P>>| h.clone(),
            |h: &Arc<HeaderSlice<(), F::P>>, n: &Arc<HeaderSlice<(), F::P>>| Arc::ptr_eq(h, n)
        ),
        "thin" => scenario!(
            ThinArc::from_header_and_slice(F::H::fresh(), &[E::fresh(), E::fresh()]),
            |h: &ThinArc<F::H, E>| ThinArc::strong_count(h),
            |h: &ThinArc<F::H, E>| h.clone(),
            |h: &ThinArc<F::H, E>, n: &ThinArc<F::H, E>| h.heap_ptr() == n.heap_ptr() && n.slice.len() == 2
        ),
        "offset_clone" => scenario!(
            Arc::into_raw_offset(Arc::new(F::P::fresh())),
            |h: &OffsetArc<F::P>| OffsetArc::strong_count(h),
            |h: &OffsetArc<F::P>| h.clone(),
            |h: &OffsetArc<F::P>, n: &OffsetArc<F::P>| (&**h as *const F::P) == (&**n as *const F::P)
        ),
        "offset_clone_arc" => scenario!(
            Arc::into_raw_offset(Arc::new(F::P::fresh())),
            |h: &OffsetArc<F::P>| OffsetArc::strong_count(h),
            |h: &OffsetArc<F::P>| h.clone_arc(),
            |h: &OffsetArc<F::P>, n: &Arc<F::P>| (&**h as *const F::P) == (&**n as *const F::P)
        ),
        "borrow_clone_arc" => scenario!(
            Arc::new(F::P::fresh()),
            |h: &Arc<F::P>| triomphe::ArcBorrow::strong_count(&h.borrow_arc()),
            |h: &Arc<F::P>| h.borrow_arc().clone_arc(),
            |h: &Arc<F::P>, n: &Arc<F::P>| Arc::ptr_eq(h, n)
        ),
        "union_first" => scenario!(
            ArcUnion::<F::P, F::Q>::from_first(Arc::new(F::P::fresh())),
            |h: &ArcUnion<F::P, F::Q>| ArcUnion::strong_count(h),
            |h: &ArcUnion<F::P, F::Q>| h.clone(),
            |h: &ArcUnion<F::P, F::Q>, n: &ArcUnion<F::P, F::Q>| ArcUnion::ptr_eq(h, n) && n.is_first()
        ),
        "union_second" => scenario!(
            ArcUnion::<F::P, F::Q>::from_second(Arc::new(F::Q::fresh())),
            |h: &ArcUnion<F::P, F::Q>| ArcUnion::strong_count(h),
            |h: &ArcUnion<F::P, F::Q>| h.clone(),
            |h: &ArcUnion<F::P, F::Q>, n: &ArcUnion<F::P, F::Q>| ArcUnion::ptr_eq(h, n) && n.is_second()
        ),
        "union_borrow_clone_arc" => scenario!(
            ArcUnion::<F::P, F::Q>::from_second(Arc::new(F::Q::fresh())),
            |h: &ArcUnion<F::P, F::Q>| ArcUnion::strong_count(h),
            |h: &ArcUnion<F::P, F::Q>| h.as_second().unwrap().clone_arc(),
            |h: &ArcUnion<F::P, F::Q>, n: &Arc<F::Q>| (h.as_second().unwrap().get() as *const F::Q) == (&**n as *const F::Q)
        ),
        "thin_with_arc" => scenario!(
            ThinArc::from_header_and_slice(F::H::fresh(), &[E::fresh()]),
            |h: &ThinArc<F::H, E>| h.with_arc(|a| Arc::count(a)),
            |h: &ThinArc<F::H, E>| h.with_arc(|a| a.clone()),
            |h: &ThinArc<F::H, E>, n: &Arc<HeaderSlice<triomphe::HeaderWithLength<F::H>, [E]>>| h.heap_ptr() == n.heap_ptr()
        ),
        "offset_with_arc" => scenario!(
            Arc::into_raw_offset(Arc::new(F::P::fresh())),
            |h: &OffsetArc<F::P>| h.with_arc(|a| Arc::count(a)),
            |h: &OffsetArc<F::P>| h.with_arc(|a| a.clone()),
            |h: &OffsetArc<F::P>, n: &Arc<F::P>| (&**h as *const F::P) == (&**n as *const F::P)
        ),
        "borrow_with_arc" => scenario!(
            Arc::new(F::P::fresh()),
            |h: &Arc<F::P>| h.borrow_arc().with_arc(|a| Arc::count(a)),
            |h: &Arc<F::P>| h.borrow_arc().with_arc(|a| a.clone()),
            |h: &Arc<F::P>, n: &Arc<F::P>| Arc::ptr_eq(h, n)
        ),
        "with_raw_offset_arc" => scenario!(
            Arc::new(F::P::fresh()),
            |h: &Arc<F::P>| h.with_raw_offset_arc(|o| OffsetArc::strong_count(o)),
            |h: &Arc<F::P>| h.with_raw_offset_arc(|o| o.clone()),
            |h: &Arc<F::P>, n: &OffsetArc<F::P>| (&**h as *const F::P) == (&**n as *const F::P)
        ),
        #[cfg(feature = "cfg_a")]
        "arcswap_load_full" => scenario!(
            arc_swap::ArcSwapAny::new(Arc::new(F::P::fresh())),
            |h: &arc_swap::ArcSwapAny<Arc<F::P>>| Arc::strong_count(&h.load()),
            |h: &arc_swap::ArcSwapAny<Arc<F::P>>| h.load_full(),
            |h: &arc_swap::ArcSwapAny<Arc<F::P>>, n: &Arc<F::P>| Arc::ptr_eq(&h.load(), n)
        ),
        #[cfg(feature = "cfg_a")]
        "arcswap_thin_load_full" => scenario!(
            arc_swap::ArcSwapAny::new(ThinArc::from_header_and_slice(F::H::fresh(), &[E::fresh()])),
            |h: &arc_swap::ArcSwapAny<ThinArc<F::H, E>>| ThinArc::strong_count(&h.load()),
            |h: &arc_swap::ArcSwapAny<ThinArc<F::H, E>>| h.load_full(),
            |h: &arc_swap::ArcSwapAny<ThinArc<F::H, E>>, n: &ThinArc<F::H, E>| h.load().heap_ptr() == n.heap_ptr()
        ),
        _ => {
            say("HARNESS-ERROR unknown entry point");
            2
        }
    }
}

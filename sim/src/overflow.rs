//! C16 engine: "time compression" of 2^63 forgotten clones. The child process creates a live
//! handle, learns the address of its counter from triomphe's own first atomic access (through
//! the pass-through shim), presets the counter, and performs one clone through the chosen
//! entry point. The parent observes how the process ends.

use crate::family::{Family, F0, F7};
use crate::handle::Probe;
use crate::shapes::Shape;
use std::io::Write;
use std::sync::atomic::Ordering;
use triomphe::{Arc, ArcUnion, HeaderSlice, OffsetArc, ThinArc};
use triomphe_verif_rt::atomic::LAST_ADDR;

pub const ENTRIES: &[&str] = &[
    "arc_sized",
    "arc_slice",
    "arc_dyn",
    "arc_header_slice",
    "arc_str",
    "arc_erased",
    "thin",
    "offset_clone",
    "offset_clone_arc",
    "borrow_clone_arc",
    "union_first",
    "union_second",
    "thin_with_arc",
    "offset_with_arc",
    "borrow_with_arc",
    "with_raw_offset_arc",
    "union_borrow_clone_arc",
    #[cfg(feature = "cfg_a")]
    "arcswap_load_full",
    #[cfg(feature = "cfg_a")]
    "arcswap_thin_load_full",
];

fn say(s: &str) {
    let o = std::io::stdout();
    let mut o = o.lock();
    let _ = writeln!(o, "{}", s);
    let _ = o.flush();
}

fn preset(start: usize) {
    let addr = LAST_ADDR.load(Ordering::Relaxed);
    if addr == 0 {
        say("HARNESS-ERROR no counter address learnt");
        std::process::exit(2);
    }
    unsafe { (*(addr as *const core::sync::atomic::AtomicUsize)).store(start, Ordering::SeqCst) };
}

/// Runs in the child. Never returns normally through a clone that should have aborted.
pub fn child(entry: &str, start: usize) -> i32 {
    type P = <F0 as Family>::P;
    type Q = <F0 as Family>::Q;
    type H = <F0 as Family>::H;
    type E = <F7 as Family>::E; // Copy elements: nothing to destroy when handles are forgotten
    macro_rules! scenario {
        ($make:expr, $count:expr, $clone:expr, $valid:expr) => {{
            let h = $make;
            LAST_ADDR.store(0, Ordering::Relaxed);
            let c0 = $count(&h);
            if c0 != 1 {
                say(&format!("HARNESS-ERROR fresh handle reports count {}", c0));
                return 2;
            }
            preset(start);
            let before = $count(&h);
            say(&format!("BEFORE-CLONE count={}", before));
            let r = std::panic::catch_unwind(std::panic::AssertUnwindSafe(|| $clone(&h)));
            match r {
                Ok(n) => {
                    let after = $count(&h);
                    let ok = $valid(&h, &n);
                    say(&format!("AFTER-CLONE count={} valid={}", after, ok));
                    std::mem::forget(n);
                    std::mem::forget(h);
                    0
                }
                Err(_) => {
                    say("CAUGHT");
                    std::mem::forget(h);
                    0
                }
            }
        }};
    }
    match entry {
        "arc_sized" => scenario!(Arc::new(P::fresh()), |h: &Arc<P>| Arc::strong_count(h), |h: &Arc<P>| h.clone(), |h: &Arc<P>, n: &Arc<P>| Arc::ptr_eq(h, n) && n.raw() == h.raw()),
        "arc_slice" => scenario!(
            Arc::<[E]>::from(vec![E::fresh(), E::fresh()]),
            |h: &Arc<[E]>| Arc::strong_count(h),
            |h: &Arc<[E]>| h.clone(),
            |h: &Arc<[E]>, n: &Arc<[E]>| Arc::ptr_eq(h, n) && n.len() == 2
        ),
        "arc_dyn" => scenario!(
            {
                let a: Arc<P> = Arc::new(P::fresh());
                let p = Arc::into_raw(a) as *const dyn Probe;
                unsafe { Arc::<dyn Probe>::from_raw(p) }
            },
            |h: &Arc<dyn Probe>| Arc::strong_count(h),
            |h: &Arc<dyn Probe>| h.clone(),
            |h: &Arc<dyn Probe>, n: &Arc<dyn Probe>| Arc::ptr_eq(h, n) && n.probe_id() == h.probe_id()
        ),
        "arc_header_slice" => scenario!(
            Arc::from_header_and_slice(H::fresh(), &[E::fresh(), E::fresh(), E::fresh()]),
            |h: &Arc<HeaderSlice<H, [E]>>| Arc::count(h),
            |h: &Arc<HeaderSlice<H, [E]>>| h.clone(),
            |h: &Arc<HeaderSlice<H, [E]>>, n: &Arc<HeaderSlice<H, [E]>>| Arc::ptr_eq(h, n) && n.slice.len() == 3
        ),
        "arc_str" => scenario!(Arc::<str>::from("overflow"), |h: &Arc<str>| Arc::strong_count(h), |h: &Arc<str>| h.clone(), |h: &Arc<str>, n: &Arc<str>| Arc::ptr_eq(h, n) && &**n == "overflow"),
        "arc_erased" => scenario!(
            Arc::<HeaderSlice<(), P>>::from(Arc::new(P::fresh())),
            |h: &Arc<HeaderSlice<(), P>>| Arc::strong_count(h),
            |h: &Arc<HeaderSlice<(), P>>| h.clone(),
            |h: &Arc<HeaderSlice<(), P>>, n: &Arc<HeaderSlice<(), P>>| Arc::ptr_eq(h, n)
        ),
        "thin" => scenario!(
            ThinArc::from_header_and_slice(H::fresh(), &[E::fresh(), E::fresh()]),
            |h: &ThinArc<H, E>| ThinArc::strong_count(h),
            |h: &ThinArc<H, E>| h.clone(),
            |h: &ThinArc<H, E>, n: &ThinArc<H, E>| h.heap_ptr() == n.heap_ptr() && n.slice.len() == 2
        ),
        "offset_clone" => scenario!(
            Arc::into_raw_offset(Arc::new(P::fresh())),
            |h: &OffsetArc<P>| OffsetArc::strong_count(h),
            |h: &OffsetArc<P>| h.clone(),
            |h: &OffsetArc<P>, n: &OffsetArc<P>| (&**h as *const P) == (&**n as *const P)
        ),
        "offset_clone_arc" => scenario!(
            Arc::into_raw_offset(Arc::new(P::fresh())),
            |h: &OffsetArc<P>| OffsetArc::strong_count(h),
            |h: &OffsetArc<P>| h.clone_arc(),
            |h: &OffsetArc<P>, n: &Arc<P>| (&**h as *const P) == (&**n as *const P)
        ),
        "borrow_clone_arc" => scenario!(
            Arc::new(P::fresh()),
            |h: &Arc<P>| triomphe::ArcBorrow::strong_count(&h.borrow_arc()),
            |h: &Arc<P>| h.borrow_arc().clone_arc(),
            |h: &Arc<P>, n: &Arc<P>| Arc::ptr_eq(h, n)
        ),
        "union_first" => scenario!(
            ArcUnion::<P, Q>::from_first(Arc::new(P::fresh())),
            |h: &ArcUnion<P, Q>| ArcUnion::strong_count(h),
            |h: &ArcUnion<P, Q>| h.clone(),
            |h: &ArcUnion<P, Q>, n: &ArcUnion<P, Q>| ArcUnion::ptr_eq(h, n) && n.is_first()
        ),
        "union_second" => scenario!(
            ArcUnion::<P, Q>::from_second(Arc::new(Q::fresh())),
            |h: &ArcUnion<P, Q>| ArcUnion::strong_count(h),
            |h: &ArcUnion<P, Q>| h.clone(),
            |h: &ArcUnion<P, Q>, n: &ArcUnion<P, Q>| ArcUnion::ptr_eq(h, n) && n.is_second()
        ),
        "union_borrow_clone_arc" => scenario!(
            ArcUnion::<P, Q>::from_second(Arc::new(Q::fresh())),
            |h: &ArcUnion<P, Q>| ArcUnion::strong_count(h),
            |h: &ArcUnion<P, Q>| h.as_second().unwrap().clone_arc(),
            |h: &ArcUnion<P, Q>, n: &Arc<Q>| (h.as_second().unwrap().get() as *const Q) == (&**n as *const Q)
        ),
        "thin_with_arc" => scenario!(
            ThinArc::from_header_and_slice(H::fresh(), &[E::fresh()]),
            |h: &ThinArc<H, E>| h.with_arc(|a| Arc::count(a)),
            |h: &ThinArc<H, E>| h.with_arc(|a| a.clone()),
            |h: &ThinArc<H, E>, n: &Arc<HeaderSlice<triomphe::HeaderWithLength<H>, [E]>>| h.heap_ptr() == n.heap_ptr()
        ),
        "offset_with_arc" => scenario!(
            Arc::into_raw_offset(Arc::new(P::fresh())),
            |h: &OffsetArc<P>| h.with_arc(|a| Arc::count(a)),
            |h: &OffsetArc<P>| h.with_arc(|a| a.clone()),
            |h: &OffsetArc<P>, n: &Arc<P>| (&**h as *const P) == (&**n as *const P)
        ),
        "borrow_with_arc" => scenario!(
            Arc::new(P::fresh()),
            |h: &Arc<P>| h.borrow_arc().with_arc(|a| Arc::count(a)),
            |h: &Arc<P>| h.borrow_arc().with_arc(|a| a.clone()),
            |h: &Arc<P>, n: &Arc<P>| Arc::ptr_eq(h, n)
        ),
        "with_raw_offset_arc" => scenario!(
            Arc::new(P::fresh()),
            |h: &Arc<P>| h.with_raw_offset_arc(|o| OffsetArc::strong_count(o)),
            |h: &Arc<P>| h.with_raw_offset_arc(|o| o.clone()),
            |h: &Arc<P>, n: &OffsetArc<P>| (&**h as *const P) == (&**n as *const P)
        ),
        #[cfg(feature = "cfg_a")]
        "arcswap_load_full" => scenario!(
            arc_swap::ArcSwapAny::new(Arc::new(P::fresh())),
            |h: &arc_swap::ArcSwapAny<Arc<P>>| Arc::strong_count(&h.load()),
            |h: &arc_swap::ArcSwapAny<Arc<P>>| h.load_full(),
            |h: &arc_swap::ArcSwapAny<Arc<P>>, n: &Arc<P>| Arc::ptr_eq(&h.load(), n)
        ),
        #[cfg(feature = "cfg_a")]
        "arcswap_thin_load_full" => scenario!(
            arc_swap::ArcSwapAny::new(ThinArc::from_header_and_slice(H::fresh(), &[E::fresh()])),
            |h: &arc_swap::ArcSwapAny<ThinArc<H, E>>| ThinArc::strong_count(&h.load()),
            |h: &arc_swap::ArcSwapAny<ThinArc<H, E>>| h.load_full(),
            |h: &arc_swap::ArcSwapAny<ThinArc<H, E>>, n: &ThinArc<H, E>| h.load().heap_ptr() == n.heap_ptr()
        ),
        _ => {
            say("HARNESS-ERROR unknown entry point");
            2
        }
    }
}

//! Minimisation of a failing replay file. Every candidate is a full deterministic re-execution
//! in a fresh child process (`trisim exec`), accepted while the same violation class persists.

use crate::ops::*;
use std::process::Command;

fn run_candidate(p: &Program, scratch: &str) -> Option<String> {
    std::fs::write(scratch, p.to_text()).ok()?;
    let exe = std::env::current_exe().ok()?;
    let out = Command::new(exe).arg("exec").arg(scratch).output().ok()?;
    let code = out.status.code();
    let stdout = String::from_utf8_lossy(&out.stdout);
    if code == Some(3) {
        for l in stdout.lines() {
            if let Some(rest) = l.strip_prefix("VIOLATION-RECORD\t") {
                return Some(rest.split('\t').next().unwrap_or("").to_string());
            }
        }
        return Some("unknown".into());
    }
    if code.is_none() {
        // killed by a signal: the class is the signal
        return Some("signal".into());
    }
    None
}

fn detail_of(p: &Program, scratch: &str) -> String {
    let _ = std::fs::write(scratch, p.to_text());
    let exe = std::env::current_exe().unwrap();
    let out = Command::new(exe).arg("exec").arg(scratch).output().unwrap();
    let stdout = String::from_utf8_lossy(&out.stdout);
    for l in stdout.lines() {
        if let Some(rest) = l.strip_prefix("VIOLATION-RECORD\t") {
            return rest.to_string();
        }
    }
    String::new()
}

/// Classes that name the same defect seen from different sides are interchangeable while shrinking.
fn same_class(a: &str, b: &str) -> bool {
    fn stem(s: &str) -> &str {
        s.split(':').next().unwrap_or(s)
    }
    a == b || (stem(a) == "race" && stem(b) == "race")
}

pub fn minimise(path: &str, out: &str) -> i32 {
    let text = match std::fs::read_to_string(path) {
        Ok(t) => t,
        Err(e) => {
            eprintln!("cannot read {}: {}", path, e);
            return 2;
        }
    };
    let mut p = match Program::from_text(&text) {
        Ok(p) => p,
        Err(e) => {
            eprintln!("bad replay: {}", e);
            return 2;
        }
    };
    let scratch = format!("{}.cand", out);
    let class = match run_candidate(&p, &scratch) {
        Some(c) => c,
        None => {
            eprintln!("replay does not reproduce a violation");
            let _ = std::fs::remove_file(&scratch);
            return 2;
        }
    };
    let mut tried = 0usize;
    let mut accept = |cand: &Program, tried: &mut usize| -> bool {
        *tried += 1;
        matches!(run_candidate(cand, &scratch), Some(c) if same_class(&c, &class))
    };
    // 1. drop whole threads' programs, post section
    loop {
        let mut changed = false;
        if !p.post.is_empty() {
            let mut c = p.clone();
            c.post.clear();
            if accept(&c, &mut tried) {
                p = c;
                changed = true;
            }
        }
        for t in 0..p.par.len() {
            if !p.par[t].is_empty() {
                let mut c = p.clone();
                c.par[t].clear();
                if accept(&c, &mut tried) {
                    p = c;
                    changed = true;
                }
            }
        }
        if !changed {
            break;
        }
    }
    // 2. ddmin-style removal of op chunks in every section
    let sections = |p: &Program| -> Vec<(usize, usize)> {
        // (section id, len): 0 setup, 1.. par, 100 post
        let mut v = vec![(0, p.setup.len())];
        for t in 0..p.par.len() {
            v.push((1 + t, p.par[t].len()));
        }
        v.push((100, p.post.len()));
        v
    };
    fn sec_mut(p: &mut Program, id: usize) -> &mut Vec<Op> {
        match id {
            0 => &mut p.setup,
            100 => &mut p.post,
            t => &mut p.par[t - 1],
        }
    }
    let mut chunk = 8usize;
    while chunk >= 1 {
        let mut changed = false;
        for (id, _) in sections(&p) {
            let mut i = 0;
            while i < sec_mut(&mut p, id).len() {
                let len = sec_mut(&mut p, id).len();
                let hi = (i + chunk).min(len);
                let mut c = p.clone();
                sec_mut(&mut c, id).drain(i..hi);
                if accept(&c, &mut tried) {
                    p = c;
                    changed = true;
                } else {
                    i += chunk;
                }
                if tried > 4000 {
                    break;
                }
            }
        }
        if !changed {
            chunk /= 2;
        }
        if tried > 4000 {
            break;
        }
    }
    // 3. simplify arguments: lengths and variants toward 0, smaller family index
    for (id, _) in sections(&p) {
        for i in 0..sec_mut(&mut p, id).len() {
            for field in 0..2 {
                let cur = {
                    let o = sec_mut(&mut p, id)[i];
                    if field == 0 { o.c } else { o.b }
                };
                let is_len = field == 1 && matches!(sec_mut(&mut p, id)[i].code,
                    OpCode::HsIter | OpCode::HsVec | OpCode::HsSlice | OpCode::SlVec | OpCode::SlIter | OpCode::UniSlIter | OpCode::SlSlice
                    | OpCode::StrFrom | OpCode::HStrFrom | OpCode::FatIter | OpCode::ThinIter | OpCode::ThinSlice | OpCode::SlMuNew
                    | OpCode::UniSlMuNew | OpCode::UniHsMuNew | OpCode::UniFatMuNew);
                if field == 1 && !is_len {
                    continue;
                }
                for cand_v in [0u32, 1, 2, cur / 2] {
                    if cand_v >= cur {
                        continue;
                    }
                    let mut c = p.clone();
                    if field == 0 {
                        sec_mut(&mut c, id)[i].c = cand_v;
                    } else {
                        sec_mut(&mut c, id)[i].b = cand_v;
                    }
                    if accept(&c, &mut tried) {
                        p = c;
                        break;
                    }
                }
            }
        }
    }
    for f in [0usize, 7, 11] {
        if f < p.family {
            let mut c = p.clone();
            c.family = f;
            if accept(&c, &mut tried) {
                p = c;
                break;
            }
        }
    }
    let mut fi = 0;
    while fi < p.fault.len() {
        let mut c = p.clone();
        c.fault.remove(fi);
        if accept(&c, &mut tried) {
            p = c;
        } else {
            fi += 1;
        }
    }
    // 4. choices toward 0 (fewer pre-emptions, newest-store reads); drop the tail
    if let Choices::List(list) = p.choices.clone() {
        let mut list = list;
        // truncate
        let mut n = list.len();
        while n > 0 {
            let mut c = p.clone();
            let keep = n / 2;
            c.choices = Choices::List(list[..keep].to_vec());
            if accept(&c, &mut tried) {
                list.truncate(keep);
                n = keep;
            } else {
                break;
            }
        }
        // zero out chunks
        let mut chunk = (list.len() / 2).max(1);
        while chunk >= 1 && !list.is_empty() {
            let mut i = 0;
            let mut changed = false;
            while i < list.len() {
                let hi = (i + chunk).min(list.len());
                if list[i..hi].iter().any(|&x| x != 0) {
                    let mut l2 = list.clone();
                    for x in &mut l2[i..hi] {
                        *x = 0;
                    }
                    let mut c = p.clone();
                    c.choices = Choices::List(l2.clone());
                    if accept(&c, &mut tried) {
                        list = l2;
                        changed = true;
                    }
                }
                i += chunk;
                if tried > 8000 {
                    break;
                }
            }
            if !changed || chunk == 1 {
                if chunk == 1 {
                    break;
                }
                chunk /= 2;
            }
        }
        while list.last() == Some(&0) {
            list.pop();
        }
        p.choices = Choices::List(list);
    }
    p.stale_pct = 0;
    p.switch_pct = 0;
    p.pct_depth = 0;
    // drop empty trailing threads
    while p.par.len() > 1 && p.par.last().map(|v| v.is_empty()).unwrap_or(false) {
        let mut c = p.clone();
        c.par.pop();
        if accept(&c, &mut tried) {
            p = c;
        } else {
            break;
        }
    }
    let final_class = run_candidate(&p, &scratch).unwrap_or_else(|| class.clone());
    p.expect = Some(format!("class={}", final_class));
    let detail = detail_of(&p, &scratch);
    let mut text = p.to_text();
    text.push_str(&format!("# minimised from {} ({} candidates tried)\n# {}\n", path, tried, detail));
    if std::fs::write(out, text).is_err() {
        return 2;
    }
    let _ = std::fs::remove_file(&scratch);
    // op families present in the minimised program (for attribution)
    let mut fams: Vec<&str> = Vec::new();
    for o in p.setup.iter().chain(p.par.iter().flatten()).chain(p.post.iter()) {
        for f in o.code.families().split_whitespace() {
            if !fams.contains(&f) {
                fams.push(f);
            }
        }
    }
    println!("MINIMISED\tclass={}\tops={}\tthreads={}\tfault={}\tfamilies={}\tout={}", final_class, p.total_ops(), p.par.len(), !p.fault.is_empty(), fams.join(","), out);
    println!("DETAIL\t{}", detail);
    0
}

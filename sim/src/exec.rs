//! Bodies of all operations. Each returns `Skipped` (operands do not fit: the op is total) or
//! `Done(expectation)`; the wrapper in interp.rs compares the expectation with what happened.

use crate::family::Family;
use crate::handle::*;
use crate::interp::*;
use crate::model::*;
use crate::ops::*;
use crate::probes::{self, *};
use crate::shapes::*;
use std::mem::MaybeUninit;
use triomphe::{Arc, ArcUnion, HeaderSlice, HeaderWithLength, OffsetArc, ThinArc, UniqueArc};
use triomphe_verif_rt::sim;
use triomphe_verif_rt::violation;

/// Marker payload for panics raised deliberately by harness closures.
pub struct Deliberate;

fn fresh_vec<E: Shape>(n: usize, extra_cap: usize) -> (Vec<E>, Vec<u32>) {
    let mut ids = Vec::with_capacity(n);
    let mut v: Vec<E> = tracked(|| Vec::with_capacity(n + extra_cap));
    for _ in 0..n {
        let e = E::fresh();
        ids.push(e.raw());
        v.push(e);
    }
    (v, ids)
}
fn zst_count<E: Shape>(n: usize) -> usize {
    if E::ZST && E::TRACKED {
        n
    } else {
        0
    }
}
fn hdr_id<H: Shape>(h: &H) -> Option<u32> {
    if H::ZST {
        None
    } else {
        Some(h.raw())
    }
}
fn make_str(n: usize, salt: u32) -> String {
    (0..n).map(|i| (b'a' + ((i as u32 * 7 + salt) % 26) as u8) as char).collect()
}


/// Produce one more owning handle from `s` through the API selected by `code`/`c`.
fn clone_through<F: Family>(code: OpCode, c: u32, s: &Handle<F>) -> Option<Handle<F>> {
    let op = Op::new(code, 0, 0, c);
    match (op.code, s) {
                (OpCode::Clone, Handle::ArcP(x)) => Some(Handle::ArcP(x.clone())),
                (OpCode::Clone, Handle::ArcQ(x)) => Some(Handle::ArcQ(x.clone())),
                (OpCode::Clone, Handle::OffP(x)) => Some(Handle::OffP(x.clone())),
                (OpCode::Clone, Handle::UnionP(x)) => Some(Handle::UnionP(x.clone())),
                (OpCode::Clone, Handle::UnionQ(x)) => Some(Handle::UnionQ(x.clone())),
                (OpCode::Clone, Handle::DynP(x)) => Some(Handle::DynP(x.clone())),
                (OpCode::Clone, Handle::ErasedP(x)) => Some(Handle::ErasedP(x.clone())),
                (OpCode::Clone, Handle::Hs(x)) => Some(Handle::Hs(x.clone())),
                (OpCode::Clone, Handle::Sl(x)) => Some(Handle::Sl(x.clone())),
                (OpCode::Clone, Handle::SlE(x)) => Some(Handle::SlE(x.clone())),
                (OpCode::Clone, Handle::Fat(x)) => Some(Handle::Fat(x.clone())),
                (OpCode::Clone, Handle::Prot(x)) => Some(Handle::Prot(x.clone())),
                (OpCode::Clone, Handle::Thin(x)) => Some(Handle::Thin(x.clone())),
                (OpCode::Clone, Handle::Str(x)) => Some(Handle::Str(x.clone())),
                (OpCode::Clone, Handle::HStr(x)) => Some(Handle::HStr(x.clone())),
                (OpCode::Clone, Handle::MuP(x)) => Some(Handle::MuP(x.clone())),
                (OpCode::Clone, Handle::SlMu(x)) => Some(Handle::SlMu(x.clone())),
                (OpCode::BorrowCloneArc, Handle::ArcP(x)) => Some(Handle::ArcP(x.borrow_arc().clone_arc())),
                (OpCode::BorrowCloneArc, Handle::ArcQ(x)) => Some(Handle::ArcQ(x.borrow_arc().clone_arc())),
                (OpCode::BorrowCloneArc, Handle::ErasedP(x)) => Some(Handle::ErasedP(x.borrow_arc().clone_arc())),
                (OpCode::BorrowCloneArc, Handle::OffP(x)) => Some(Handle::ArcP(x.borrow_arc().clone_arc())),
                (OpCode::BorrowCloneArc, Handle::UnionP(x)) => Some(Handle::ArcP(x.as_first().unwrap().clone_arc())),
                (OpCode::BorrowCloneArc, Handle::UnionQ(x)) => Some(Handle::ArcQ(x.as_second().unwrap().clone_arc())),
                (OpCode::OffCloneArc, Handle::OffP(x)) => Some(Handle::ArcP(x.clone_arc())),
                (OpCode::WithArcClone, Handle::Thin(x)) => Some(Handle::Fat(x.with_arc(|a| {
                    callback(Cb::Closure);
                    let c = a.clone();
                    callback(Cb::Closure);
                    c
                }))),
                (OpCode::WithArcClone, Handle::OffP(x)) => Some(Handle::ArcP(x.with_arc(|a| {
                    callback(Cb::Closure);
                    let c = a.clone();
                    callback(Cb::Closure);
                    c
                }))),
                (OpCode::WithArcClone, Handle::ArcP(x)) => {
                    if op.c % 2 == 0 {
                        Some(Handle::ArcP(x.borrow_arc().with_arc(|a| {
                            callback(Cb::Closure);
                            let c = a.clone();
                            callback(Cb::Closure);
                            c
                        })))
                    } else {
                        Some(Handle::OffP(x.with_raw_offset_arc(|o| {
                            callback(Cb::Closure);
                            let c = o.clone();
                            callback(Cb::Closure);
                            c
                        })))
                    }
                }
                (OpCode::WithArcClone, Handle::UnionP(x)) => Some(Handle::ArcP(x.as_first().unwrap().with_arc(|a| {
                    callback(Cb::Closure);
                    let c = a.clone();
                    callback(Cb::Closure);
                    c
                }))),
                #[cfg(feature = "cfg_a")]
                (OpCode::SwapLoadFull, Handle::SwapP(x)) => Some(untracked(|| Handle::ArcP(x.load_full()))),
                #[cfg(feature = "cfg_a")]
                (OpCode::SwapLoadFull, Handle::SwapThin(x)) => Some(untracked(|| Handle::Thin(x.load_full()))),
        _ => None,
    }
}

enum Expect {
    Ok,
    Panic,
    Either,
}

impl<'a, F: Family> Cx<'a, F> {
    fn classify_panic(&self, what: &str, p: &Box<dyn std::any::Any + Send>, specified: bool) {
        if is_injected(p).is_some() {
            return;
        }
        if p.downcast_ref::<Deliberate>().is_some() {
            return;
        }
        if !specified {
            violation("unexpected-panic", format!("`{}` panicked: {}", what, panic_msg(p)));
        }
    }

    // --------------------------------------------------------------------------------------
    // constructors

    fn finish_sized_p(&mut self, dst: u32, h: Handle<F>, id: u32, what: &str, uninit: bool) -> Outcome {
        let mut a = self.new_alloc(Class::P, 0, what);
        a.val = if F::P::ZST { None } else { Some(id) };
        a.zst_body = zst_count::<F::P>(1);
        a.uninit = uninit;
        if uninit {
            a.val = None;
            a.zst_body = 0;
            a.written = vec![false];
        }
        if a.data_off > 8 {
            probes::hit(P_OVERALIGNED);
        }
        let ai = self.push_alloc(a);
        self.put(dst, Slot { h, ai });
        Done(Exp { new_live: 1, ..Exp::default() })
    }

    fn c_sized(&mut self, op: &Op) -> Outcome {
        let dst = op.a;
        if !self.free(dst) {
            return Skipped;
        }
        let what = op.text();
        match op.code {
            OpCode::NewP | OpCode::FromP | OpCode::FromBoxP | OpCode::UniNewP => {
                if !F::P::can_make(1) {
                    return Skipped;
                }
                let p = F::P::fresh();
                let id = p.raw();
                let h = match op.code {
                    OpCode::NewP => Handle::ArcP(tracked(|| Arc::new(p))),
                    OpCode::FromP => Handle::ArcP(tracked(|| Arc::from(p))),
                    OpCode::FromBoxP => {
                        let before = triomphe_verif_rt::ledger::event_count();
                        let r = Handle::ArcP(tracked(|| {
                            let b = Box::new(p);
                            Arc::from(b)
                        }));
                        if !F::P::ZST {
                            // the Box's own block must have been released by the conversion
                            let mut freed_tmp = false;
                            for i in before..triomphe_verif_rt::ledger::event_count() {
                                if triomphe_verif_rt::ledger::event_at(i).kind == triomphe_verif_rt::ledger::EV_DEALLOC {
                                    freed_tmp = true;
                                }
                            }
                            if freed_tmp {
                                probes::hit(P_SRC_CONTAINER_FREED);
                            }
                        }
                        r
                    }
                    _ => Handle::UniP(tracked(|| UniqueArc::new(p))),
                };
                self.finish_sized_p(dst, h, id, &what, false)
            }
            OpCode::DefaultP => {
                if !F::P::can_make(1) {
                    return Skipped;
                }
                // `P::default()` is user code called by the library: it may panic (fault class
                // `default`); nothing has been built then and nothing may be destroyed
                match guarded(|| tracked(Arc::<F::P>::default)) {
                    Ok(arc) => {
                        let id = arc.raw();
                        self.finish_sized_p(dst, Handle::ArcP(arc), id, &what, false)
                    }
                    Err(p) => {
                        self.classify_panic(&what, &p, false);
                        drop(p);
                        Done(Exp { unwound: Some((vec![], 0, true)), ..Exp::default() })
                    }
                }
            }
            OpCode::NewQ => {
                if !F::Q::can_make(1) {
                    return Skipped;
                }
                let q = F::Q::fresh();
                let id = q.raw();
                let arc = tracked(|| Arc::new(q));
                let mut a = self.new_alloc(Class::Q, 0, &what);
                a.val = if F::Q::ZST { None } else { Some(id) };
                a.zst_body = zst_count::<F::Q>(1);
                let ai = self.push_alloc(a);
                self.put(dst, Slot { h: Handle::ArcQ(arc), ai });
                Done(Exp { new_live: 1, ..Exp::default() })
            }
            OpCode::MuNew => {
                let arc = tracked(Arc::<MaybeUninit<F::P>>::new_uninit);
                self.finish_sized_p(dst, Handle::MuP(arc), 0, &what, true)
            }
            OpCode::UniMuNew => {
                let u = tracked(UniqueArc::<F::P>::new_uninit);
                self.finish_sized_p(dst, Handle::UniMuP(u), 0, &what, true)
            }
            _ => Skipped,
        }
    }

    fn slice_alloc(&self, class: Class, n: usize, hid: Option<u32>, zst_h: bool, ids: Vec<u32>, what: &str) -> AllocM {
        let mut a = self.new_alloc(class, n, what);
        a.header = hid;
        a.zst_hdr = zst_h;
        a.elems = ids;
        a.zst_body = zst_count::<F::E>(n);
        let (size, _, off) = expected_layout::<F>(class, n);
        let raw_end = off + slice_offset::<F>(class) + n * F::E::SIZE;
        if raw_end < size {
            probes::hit(P_PADDED_TAIL);
        }
        if off > 8 {
            probes::hit(P_OVERALIGNED);
        }
        a
    }

    /// Constructors taking a header and/or elements. Handles refusal panics and lying iterators.
    fn c_slice(&mut self, op: &Op) -> Outcome {
        let dst = op.a;
        let n = op.b as usize;
        if !self.free(dst) || n > 400 {
            return Skipped;
        }
        if !F::E::can_make(n) || !F::H::can_make(1) {
            return Skipped;
        }
        let what = op.text();
        let zst_h = F::H::ZST && F::H::TRACKED;
        let faulty = reg(|r| !r.faults.is_empty());
        match op.code {
            OpCode::HsIter | OpCode::FatIter | OpCode::ThinIter | OpCode::SlIter | OpCode::UniSlIter => {
                let with_header = !matches!(op.code, OpCode::SlIter | OpCode::UniSlIter);
                let (items, ids) = fresh_vec::<F::E>(n, 0);
                let mut it = SimIter::new(items);
                let mut expect = Expect::Ok;
                let mut leak_ok = false;
                let mut rec = n; // recorded length for Fat
                let regime = op.c;
                match op.code {
                    OpCode::HsIter => {
                        let lie = match regime {
                            1 => Some(n + 1),
                            2 => Some(n + 2),
                            3 if n >= 1 => Some(n - 1),
                            4 if n >= 2 => Some(n - 2),
                            _ => None,
                        };
                        if let Some(l) = lie {
                            it = it.with_len_script(vec![l]);
                            expect = Expect::Panic;
                            leak_ok = true;
                            probes::hit(if l > n { P_LIE_OVER } else { P_LIE_UNDER });
                        }
                        // answers that change between calls: how often len() is consulted is an
                        // implementation detail, so a refusal and (when only honest answers were
                        // used) a correct result are both in order; wrong contents never are
                        let changing = match regime {
                            5 => Some(vec![n, n + 1]),
                            6 => Some(vec![n + 1, n]),
                            7 if n >= 1 => Some(vec![n - 1, n]),
                            8 if n >= 1 => Some(vec![n, n - 1]),
                            _ => None,
                        };
                        if let Some(s) = changing {
                            it = it.with_len_script(s);
                            expect = Expect::Either;
                            leak_ok = true;
                            probes::hit(P_LIE_CHANGING);
                        }
                    }
                    OpCode::FatIter => {
                        rec = match regime {
                            1 => n + 1,
                            2 => n + 2,
                            3 if n >= 1 => n - 1,
                            4 => 0,
                            5 => usize::MAX / 2,
                            _ => n,
                        };
                    }
                    OpCode::ThinIter => {
                        let script: Option<(Vec<usize>, bool)> = match regime {
                            1 => Some((vec![n + 1], true)),
                            2 => Some((vec![n + 2], true)),
                            3 if n >= 1 => Some((vec![n - 1], true)),
                            4 if n >= 2 => Some((vec![n - 2], true)),
                            5 => Some((vec![n, n + 1], true)),
                            6 => Some((vec![n + 1, n], false)),
                            7 if n >= 1 => Some((vec![n - 1, n], false)),
                            8 if n >= 1 => Some((vec![n, n - 1], true)),
                            _ => None,
                        };
                        if let Some((s, lk)) = script {
                            if s.len() > 1 {
                                probes::hit(P_LIE_CHANGING);
                            } else {
                                probes::hit(if s[0] > n { P_LIE_OVER } else { P_LIE_UNDER });
                            }
                            it = it.with_len_script(s);
                            // how often len() is consulted is an implementation detail: when the
                            // answers change between calls either a refusal or (if only consistent
                            // answers were used) ... a refusal is the only sound outcome, but which
                            // check refuses decides whether a half-built block is leaked.
                            expect = Expect::Panic;
                            leak_ok = lk || regime >= 5;
                        }
                    }
                    _ => {
                        // FromIterator: driven by size_hint
                        match regime {
                            1 => it = it.with_hint(1),
                            2 => it = it.with_hint(2),
                            3 => {
                                it = it.with_hint_script(vec![n + 1]);
                                expect = Expect::Panic;
                                leak_ok = true;
                                probes::hit(P_LIE_OVER);
                            }
                            4 if n >= 1 => {
                                it = it.with_hint_script(vec![n - 1]);
                                expect = Expect::Panic;
                                leak_ok = true;
                                probes::hit(P_LIE_UNDER);
                            }
                            5 => {
                                it = it.with_hint_script(vec![n, n, n + 1]);
                                expect = Expect::Either;
                                leak_ok = true;
                                probes::hit(P_LIE_CHANGING);
                            }
                            6 if n >= 1 => {
                                it = it.with_hint_script(vec![n, n - 1]);
                                expect = Expect::Either;
                                leak_ok = true;
                                probes::hit(P_LIE_CHANGING);
                            }
                            _ => {}
                        }
                    }
                }
                // zero-sized elements: from_header_and_iter refuses up front (consuming nothing)
                let exact_path = match op.code {
                    OpCode::SlIter | OpCode::UniSlIter => !matches!(regime, 1 | 2),
                    _ => true,
                };
                if F::E::ZST && exact_path {
                    expect = Expect::Panic;
                    leak_ok = false;
                    probes::hit(P_ZST_REFUSED);
                }
                let header = if with_header { Some(F::H::fresh()) } else { None };
                let hid = header.as_ref().and_then(hdr_id);
                let mut inputs = ids.clone();
                inputs.retain(|&i| i != 0);
                if !F::E::TRACKED {
                    inputs.clear();
                }
                if let Some(h) = hid {
                    if F::H::TRACKED {
                        inputs.push(h);
                    }
                }
                let zin = zst_count::<F::E>(n) + if with_header && zst_h { 1 } else { 0 };
                let r: Result<Handle<F>, _> = guarded(|| match op.code {
                    OpCode::HsIter => Handle::Hs(Arc::from_header_and_iter(header.unwrap(), it)),
                    OpCode::FatIter => Handle::Fat(Arc::from_header_and_iter(HeaderWithLength::new(header.unwrap(), rec), it)),
                    OpCode::ThinIter => Handle::Thin(ThinArc::from_header_and_iter(header.unwrap(), it)),
                    OpCode::SlIter => Handle::Sl(it.collect::<Arc<[F::E]>>()),
                    _ => Handle::UniSl(it.collect::<UniqueArc<[F::E]>>()),
                });
                match r {
                    Ok(h) => {
                        let _ = faulty;
                        let class = match op.code {
                            OpCode::HsIter => Class::Hs,
                            OpCode::FatIter | OpCode::ThinIter => Class::Fat,
                            _ => Class::Sl,
                        };
                        // A constructor is allowed to cope with a misreporting iterator instead of
                        // refusing it ("at worst a propagated panic"): then the handle must hold
                        // exactly what the iterator really yields, and nothing uninitialised.
                        let mut n_eff = n;
                        let mut exp = Exp { new_live: 1, ..Exp::default() };
                        let mut ids = ids;
                        if !matches!(expect, Expect::Ok) && !F::E::ZST {
                            let v = h.view(false, false);
                            if let Some((lo, hi)) = v.elem_range {
                                n_eff = (hi - lo) / F::E::SIZE;
                            }
                            if n_eff > n {
                                violation(
                                    "uninit-exposed",
                                    format!("`{}`: the iterator yielded {} element(s) but the handle exposes {} slot(s): the extra ones were never written", what, n, n_eff),
                                );
                            }
                            if n_eff < n {
                                // coping is allowed, returning something else than the input is not
                                // (C06: "elements equal the input, in the same order and number")
                                violation(
                                    "length-mismatch",
                                    format!("`{}`: the iterator yields {} element(s) but the handle that came back holds only {}: contents silently truncated", what, n, n_eff),
                                );
                            }
                            if F::E::TRACKED {
                                exp.drops.extend(ids[n_eff..].iter().copied().filter(|i| *i != 0));
                            }
                            ids.truncate(n_eff);
                        }
                        let mut a = self.slice_alloc(class, n_eff, hid, with_header && zst_h, ids, &what);
                        if class == Class::Fat {
                            a.hlen = Some(if op.code == OpCode::ThinIter { n_eff } else { rec });
                        }
                        let ai = self.push_alloc(a);
                        self.put(dst, Slot { h, ai });
                        Done(exp)
                    }
                    Err(p) => {
                        let specified = !matches!(expect, Expect::Ok);
                        self.classify_panic(&what, &p, specified);
                        let injected = is_injected(&p);
                        // a panic from the iterator itself may strike inside the fill loop
                        let lk = leak_ok || matches!(injected, Some((Cb::IterNext, _)) | Some((Cb::IterHint, _)) | Some((Cb::IterLen, _)));
                        drop(p);
                        Done(Exp { unwound: Some((inputs, zin, lk)), ..Exp::default() })
                    }
                }
            }
            OpCode::HsVec | OpCode::SlVec => {
                let (v, ids) = fresh_vec::<F::E>(n, op.c as usize % 8);
                let with_header = op.code == OpCode::HsVec;
                let header = if with_header { Some(F::H::fresh()) } else { None };
                let hid = header.as_ref().and_then(hdr_id);
                let before = triomphe_verif_rt::ledger::event_count();
                let h: Handle<F> = tracked(|| {
                    if with_header {
                        Handle::Hs(Arc::from_header_and_vec(header.unwrap(), v))
                    } else {
                        Handle::Sl(Arc::from(v))
                    }
                });
                for i in before..triomphe_verif_rt::ledger::event_count() {
                    if triomphe_verif_rt::ledger::event_at(i).kind == triomphe_verif_rt::ledger::EV_DEALLOC {
                        probes::hit(P_SRC_CONTAINER_FREED);
                    }
                }
                let class = if with_header { Class::Hs } else { Class::Sl };
                let a = self.slice_alloc(class, n, hid, with_header && zst_h, ids, &what);
                let ai = self.push_alloc(a);
                self.put(dst, Slot { h, ai });
                Done(Exp { new_live: 1, ..Exp::default() })
            }
            OpCode::HsSlice | OpCode::SlSlice | OpCode::ThinSlice => {
                if !F::E_COPY {
                    return Skipped;
                }
                let (v, ids) = fresh_vec::<F::E>(n, 0);
                let with_header = op.code != OpCode::SlSlice;
                let header = if with_header { Some(F::H::fresh()) } else { None };
                let hid = header.as_ref().and_then(hdr_id);
                let r: Result<Handle<F>, _> = guarded(|| {
                    let h = match op.code {
                        OpCode::HsSlice => Handle::Hs(F::hs_from_slice(header.unwrap(), &v).unwrap()),
                        OpCode::SlSlice => Handle::Sl(F::sl_from_slice(&v).unwrap()),
                        _ => Handle::Thin(F::thin_from_slice(header.unwrap(), &v).unwrap()),
                    };
                    drop(v);
                    h
                });
                let h = match r {
                    Ok(h) => h,
                    Err(p) => {
                        violation("unexpected-panic", format!("`{}` panicked: {}", what, panic_msg(&p)));
                    }
                };
                let class = match op.code {
                    OpCode::HsSlice => Class::Hs,
                    OpCode::SlSlice => Class::Sl,
                    _ => Class::Fat,
                };
                let mut a = self.slice_alloc(class, n, hid, with_header && zst_h, ids, &what);
                if class == Class::Fat {
                    a.hlen = Some(n);
                }
                let ai = self.push_alloc(a);
                self.put(dst, Slot { h, ai });
                Done(Exp { new_live: 1, ..Exp::default() })
            }
            OpCode::StrFrom | OpCode::HStrFrom => {
                let s = make_str(n, op.c + n as u32);
                let with_header = op.code == OpCode::HStrFrom;
                let header = if with_header { Some(F::H::fresh()) } else { None };
                let hid = header.as_ref().and_then(hdr_id);
                let s2 = s.clone();
                let h: Handle<F> = tracked(|| {
                    if with_header {
                        Handle::HStr(Arc::from_header_and_str(header.unwrap(), &s2))
                    } else if op.c % 2 == 0 {
                        Handle::Str(Arc::from(&s2[..]))
                    } else {
                        // "every capacity >= length": sometimes the source String has spare room
                        let mut owned = String::with_capacity(s2.len() + if op.c % 4 == 3 { 9 } else { 0 });
                        owned.push_str(&s2);
                        Handle::Str(Arc::from(owned))
                    }
                });
                let class = if with_header { Class::HStr } else { Class::Str };
                let mut a = self.new_alloc(class, n, &what);
                a.header = hid;
                a.zst_hdr = with_header && zst_h;
                a.s = Some(s);
                a.nelems = n;
                let ai = self.push_alloc(a);
                self.put(dst, Slot { h, ai });
                Done(Exp { new_live: 1, ..Exp::default() })
            }
            OpCode::SlMuNew | OpCode::UniSlMuNew | OpCode::UniHsMuNew | OpCode::UniFatMuNew => {
                let with_header = matches!(op.code, OpCode::UniHsMuNew | OpCode::UniFatMuNew);
                let header = if with_header { Some(F::H::fresh()) } else { None };
                let hid = header.as_ref().and_then(hdr_id);
                let h: Handle<F> = tracked(|| match op.code {
                    OpCode::SlMuNew => Handle::SlMu(Arc::<[MaybeUninit<F::E>]>::new_uninit_slice(n)),
                    OpCode::UniSlMuNew => Handle::UniSlMu(UniqueArc::<[MaybeUninit<F::E>]>::new_uninit_slice(n)),
                    OpCode::UniHsMuNew => Handle::UniHsMu(UniqueArc::from_header_and_uninit_slice(header.unwrap(), n)),
                    _ => Handle::UniFatMu(UniqueArc::from_header_and_uninit_slice(HeaderWithLength::new(header.unwrap(), n), n)),
                });
                let class = match op.code {
                    OpCode::SlMuNew | OpCode::UniSlMuNew => Class::Sl,
                    OpCode::UniHsMuNew => Class::Hs,
                    _ => Class::Fat,
                };
                let mut a = self.slice_alloc(class, n, hid, with_header && zst_h, vec![0; n], &what);
                a.zst_body = 0;
                a.uninit = true;
                a.written = vec![false; n];
                if class == Class::Fat {
                    a.hlen = Some(n);
                }
                let ai = self.push_alloc(a);
                self.put(dst, Slot { h, ai });
                Done(Exp { new_live: 1, ..Exp::default() })
            }
            _ => Skipped,
        }
    }

    /// Constructors whose size computation overflows: must panic without requesting a block.
    fn c_huge(&mut self, op: &Op) -> Outcome {
        if F::E::ZST || !F::H::can_make(1) {
            return Skipped;
        }
        let what = op.text();
        let sz = F::E::SIZE;
        let len = match op.b % 4 {
            0 => usize::MAX,
            1 => (isize::MAX as usize) / sz + 1,
            2 => usize::MAX / sz,
            _ => (usize::MAX / sz).wrapping_add(1).max(isize::MAX as usize / sz + 1),
        };
        let mut inputs = vec![];
        let header = F::H::fresh();
        if let Some(h) = hdr_id(&header) {
            if F::H::TRACKED {
                inputs.push(h);
            }
        }
        let zin = if F::H::ZST && F::H::TRACKED { 1 } else { 0 };
        let r = guarded(|| match op.c % 3 {
            0 => {
                drop(header);
                drop(Arc::<[MaybeUninit<F::E>]>::new_uninit_slice(len));
            }
            1 => {
                drop(UniqueArc::<HeaderSlice<F::H, [MaybeUninit<F::E>]>>::from_header_and_uninit_slice(header, len));
            }
            _ => {
                drop(header);
                drop(UniqueArc::<[MaybeUninit<F::E>]>::new_uninit_slice(len));
            }
        });
        match r {
            Ok(()) => violation(
                "overflow:accepted",
                format!("`{}`: a slice of {} elements of {} bytes was accepted (the size computation must overflow)", what, len, sz),
            ),
            Err(p) => {
                drop(p);
                probes::hit(P_OVERFLOW_REFUSED);
                // any tracked allocation request made by the library call is a short block
                let cnt = triomphe_verif_rt::ledger::event_count();
                for i in self.mark..cnt {
                    let e = triomphe_verif_rt::ledger::event_at(i);
                    if e.kind == triomphe_verif_rt::ledger::EV_ALLOC && e.tid as usize == self.t {
                        let b = triomphe_verif_rt::ledger::block(e.block);
                        if b.size >= 8 && b.align >= 8 && b.size < len {
                            // panic payloads are small too; distinguish by liveness: a payload box
                            // is freed when the payload is dropped above, a leaked short block is not
                            if b.state == triomphe_verif_rt::ledger::ST_LIVE {
                                violation(
                                    "overflow:short-block",
                                    format!("`{}`: a block of {} bytes was allocated for {} elements of {} bytes", what, b.size, len, sz),
                                );
                            }
                        }
                    }
                }
                Done(Exp { unwound: Some((inputs, zin, false)), ..Exp::default() })
            }
        }
    }

    // --------------------------------------------------------------------------------------
    // clone-style

    fn o_clone(&mut self, op: &Op) -> Outcome {
        let (src, dst) = (op.a, op.b);
        if !self.has(src) || !self.free(dst) || src == dst {
            return Skipped;
        }
        let ai = self.ai(src);
        if ai == NOAI {
            return Skipped;
        }
        let what = op.text();
        let r: Result<Option<Handle<F>>, _> = {
            let s = &self.slots[src as usize - self.base].as_ref().unwrap().h;
            guarded(|| clone_through::<F>(op.code, op.c, s))
        };
        self.touched.push(src);
        match r {
            Ok(None) => Skipped,
            Ok(Some(h)) => {
                let mut exp = Exp::default();
                self.add_owner(ai, &mut exp);
                self.put(dst, Slot { h, ai });
                if matches!(op.code, OpCode::SwapLoadFull) {
                    exp.deltas.clear(); // arc-swap may add and remove transient counts
                    let b = self.env.m(|m| m.allocs[ai].block);
                    exp.delta(b, 1);
                }
                Done(exp)
            }
            Err(p) => {
                // only an injected closure panic can land here: nothing may have changed
                self.classify_panic(&what, &p, false);
                drop(p);
                Done(Exp::default())
            }
        }
    }

    /// `Clone::clone_from`: the destination handle gives up its old allocation (possibly as its
    /// last owner, possibly with a destructor that panics) and becomes one more owner of the
    /// source's. Whatever order an implementation works in, and whether or not the release
    /// unwinds, afterwards the destination is a valid owner of the source's allocation.
    fn o_clone_from(&mut self, op: &Op) -> Outcome {
        let (dst, src) = (op.a, op.b);
        if self.par || dst == src || !self.has(dst) || !self.has(src) {
            return Skipped;
        }
        let (ai_old, ai_new) = (self.ai(dst), self.ai(src));
        if ai_old == NOAI || ai_new == NOAI || self.env.m(|m| m.allocs[ai_old].uninit || m.allocs[ai_new].uninit) {
            return Skipped;
        }
        let kd = self.slots[dst as usize - self.base].as_ref().unwrap().h.kind();
        let ks = self.slots[src as usize - self.base].as_ref().unwrap().h.kind();
        let ok = matches!(
            (kd, ks),
            (Kind::ArcP, Kind::ArcP) | (Kind::OffP, Kind::OffP) | (Kind::Thin, Kind::Thin) | (Kind::Hs, Kind::Hs) | (Kind::Sl, Kind::Sl) | (Kind::UnionP | Kind::UnionQ, Kind::UnionP | Kind::UnionQ)
        );
        if !ok {
            return Skipped;
        }
        let what = op.text();
        let Slot { h: mut hd, ai: _ } = self.take(dst);
        let mut exp = Exp::default();
        self.add_owner(ai_new, &mut exp);
        self.release(ai_old, &mut exp);
        let prev = set_drop_ctx(true);
        let r = {
            let hs = &self.slots[src as usize - self.base].as_ref().unwrap().h;
            guarded(|| match (&mut hd, hs) {
                (Handle::ArcP(d), Handle::ArcP(s)) => d.clone_from(s),
                (Handle::OffP(d), Handle::OffP(s)) => d.clone_from(s),
                (Handle::Thin(d), Handle::Thin(s)) => d.clone_from(s),
                (Handle::Hs(d), Handle::Hs(s)) => d.clone_from(s),
                (Handle::Sl(d), Handle::Sl(s)) => d.clone_from(s),
                (Handle::UnionP(d) | Handle::UnionQ(d), Handle::UnionP(s) | Handle::UnionQ(s)) => d.clone_from(s),
                _ => unreachable!(),
            })
        };
        set_drop_ctx(prev);
        // a union takes over the variant of its source
        let hd = match (hd, ks) {
            (Handle::UnionP(u), Kind::UnionQ) => Handle::UnionQ(u),
            (Handle::UnionQ(u), Kind::UnionP) => Handle::UnionP(u),
            (h, _) => h,
        };
        if let Err(p) = r {
            if !matches!(is_injected(&p), Some((Cb::Drop, _))) {
                violation("unexpected-panic", format!("`{}` panicked: {}", what, panic_msg(&p)));
            }
            drop(p);
        }
        self.put(dst, Slot { h: hd, ai: ai_new });
        self.touched.push(dst);
        self.touched.push(src);
        Done(exp)
    }

    /// Clone (or just read) through a handle that all threads of the parallel section share by
    /// reference: several threads may be inside `clone` on the very same handle at once.
    fn o_shared(&mut self, op: &Op) -> Outcome {
        let a = op.a as usize;
        if a < SHARED_BASE || a >= SHARED_BASE + NSHARED {
            return Skipped;
        }
        // outside parallel sections the shared slots are ordinary slots
        let (h, ai): (&Handle<F>, usize) = if self.par {
            match self.shared.get(a - SHARED_BASE).and_then(|s| s.as_ref()) {
                Some(s) => (&s.h, s.ai),
                None => return Skipped,
            }
        } else {
            if !self.has(op.a) {
                return Skipped;
            }
            let s = self.slots[a - self.base].as_ref().unwrap();
            (&s.h, s.ai)
        };
        if ai == NOAI {
            return Skipped;
        }
        if op.code == OpCode::ReadShared {
            let s = if self.par { self.shared[a - SHARED_BASE].as_ref().unwrap() } else { self.slots[a - self.base].as_ref().unwrap() };
            check_slot(s, self.env, !self.par, op, op.a);
            return Done(Exp { no_rmw: false, ..Exp::default() });
        }
        let dst = op.b;
        if !self.free(dst) || dst as usize >= SHARED_BASE {
            return Skipped;
        }
        let code = match op.c % 4 {
            0 => OpCode::Clone,
            1 => OpCode::BorrowCloneArc,
            2 => OpCode::WithArcClone,
            _ => OpCode::OffCloneArc,
        };
        let r = guarded(|| clone_through::<F>(code, op.c / 4, h).or_else(|| clone_through::<F>(OpCode::Clone, 0, h)));
        match r {
            Ok(None) => Skipped,
            Ok(Some(nh)) => {
                let mut exp = Exp::default();
                self.add_owner(ai, &mut exp);
                self.put(dst, Slot { h: nh, ai });
                probes::hit(P_SHARED_CLONE);
                Done(exp)
            }
            Err(p) => {
                self.classify_panic(&op.text(), &p, false);
                drop(p);
                Done(Exp::default())
            }
        }
    }

    // --------------------------------------------------------------------------------------
    // count-neutral conversions

    fn o_convert(&mut self, op: &Op) -> Outcome {
        let g = op.a;
        if !self.has(g) {
            return Skipped;
        }
        let k = self.kind(g).unwrap();
        let what = op.text();
        // arc-swap has real atomics inside: confined to single-threaded phases
        if self.par && matches!(op.code, OpCode::SwapWrap | OpCode::SwapUnwrap | OpCode::RefCntTrip) {
            return Skipped;
        }
        let applicable = match op.code {
            OpCode::ToOffset => k == Kind::ArcP,
            OpCode::FromOffset => k == Kind::OffP,
            OpCode::IntoRaw => matches!(k, Kind::ArcP | Kind::Sl | Kind::DynP | Kind::Thin),
            OpCode::FromRaw => matches!(k, Kind::RawP | Kind::RawSl | Kind::RawDyn | Kind::RawThin),
            OpCode::FromRawAsDyn => k == Kind::RawP,
            OpCode::UnsizeDyn => matches!(k, Kind::ArcP | Kind::UniP) && cfg!(feature = "cfg_a"),
            OpCode::ToUnion => matches!(k, Kind::ArcP | Kind::ArcQ),
            OpCode::ToUnionCross => k == Kind::ArcP,
            OpCode::Erase => matches!(k, Kind::ArcP | Kind::Sl),
            OpCode::Unerase => matches!(k, Kind::ErasedP | Kind::SlE),
            OpCode::IntoThin => k == Kind::Fat,
            OpCode::FromThin => k == Kind::Thin,
            OpCode::ProtFromThin => k == Kind::Thin,
            OpCode::ProtIntoThin => k == Kind::Prot,
            OpCode::Shareable => matches!(k, Kind::UniP | Kind::UniHs | Kind::UniSl | Kind::UniMuP | Kind::UniSlMu | Kind::UniFat | Kind::UniDynP),
            OpCode::SwapWrap => matches!(k, Kind::ArcP | Kind::Thin) && cfg!(feature = "cfg_a"),
            OpCode::SwapUnwrap => matches!(k, Kind::SwapP | Kind::SwapThin),
            OpCode::RefCntTrip => matches!(k, Kind::ArcP | Kind::Thin) && cfg!(feature = "cfg_a"),
            _ => false,
        };
        if !applicable {
            return Skipped;
        }
        let Slot { h, ai } = self.take(g);
        // into_thin is the one conversion that can refuse
        if op.code == OpCode::IntoThin {
            let (hlen, n) = self.env.m(|m| (m.allocs[ai].hlen.unwrap(), m.allocs[ai].nelems));
            let Handle::Fat(x) = h else { unreachable!() };
            if hlen == n {
                let t = tracked(|| Arc::into_thin(x));
                self.put(g, Slot { h: Handle::Thin(t), ai });
                return Done(Exp { no_rmw: true, no_alloc: true, ..Exp::default() });
            }
            // recorded length disagrees with the slice: refusal, and the Arc is released properly
            let mut exp = Exp::default();
            self.release(ai, &mut exp);
            let r = guarded(|| Arc::into_thin(x));
            match r {
                Ok(t) => {
                    std::mem::forget(t);
                    violation(
                        "missing-refusal",
                        format!("`{}`: a fat Arc whose recorded length is {} but whose slice has {} element(s) was converted to a ThinArc", what, hlen, n),
                    );
                }
                Err(p) => {
                    drop(p);
                    probes::hit(P_INTO_THIN_REFUSED);
                    return Done(exp);
                }
            }
        }
        let exp = Exp {
            no_rmw: !matches!(op.code, OpCode::SwapWrap | OpCode::SwapUnwrap),
            no_alloc: !matches!(op.code, OpCode::SwapWrap | OpCode::SwapUnwrap),
            ..Exp::default()
        };
        let nh: Handle<F> = tracked(|| match (op.code, h) {
            (OpCode::ToOffset, Handle::ArcP(x)) => Handle::OffP(Arc::into_raw_offset(x)),
            (OpCode::FromOffset, Handle::OffP(x)) => Handle::ArcP(Arc::from_raw_offset(x)),
            (OpCode::IntoRaw, Handle::ArcP(x)) => Handle::RawP(SendPtr(Arc::into_raw(x))),
            (OpCode::IntoRaw, Handle::Sl(x)) => Handle::RawSl(SendPtr(Arc::into_raw(x))),
            (OpCode::IntoRaw, Handle::DynP(x)) => Handle::RawDyn(SendPtr(Arc::into_raw(x))),
            (OpCode::IntoRaw, Handle::Thin(x)) => Handle::RawThin(SendPtr(ThinArc::into_raw(x))),
            (OpCode::FromRaw, Handle::RawP(p)) => Handle::ArcP(unsafe { Arc::from_raw(p.0) }),
            (OpCode::FromRaw, Handle::RawSl(p)) => Handle::Sl(unsafe { Arc::from_raw_slice(p.0) }),
            (OpCode::FromRaw, Handle::RawDyn(p)) => Handle::DynP(unsafe { Arc::from_raw(p.0) }),
            (OpCode::FromRaw, Handle::RawThin(p)) => Handle::Thin(unsafe { ThinArc::from_raw(p.0) }),
            (OpCode::FromRawAsDyn, Handle::RawP(p)) => {
                let d: *const dyn Probe = if op.c % 2 == 1 {
                    // through the subtrait and up again: another vtable, the same allocation
                    p.0 as *const F::P as *const dyn crate::handle::ProbeSub as *const dyn Probe
                } else {
                    p.0 as *const F::P as *const dyn Probe
                };
                Handle::DynP(unsafe { Arc::from_raw(d) })
            }
            #[cfg(feature = "cfg_a")]
            (OpCode::UnsizeDyn, Handle::ArcP(x)) => {
                use unsize::CoerceUnsize;
                Handle::DynP(x.unsize(unsize::Coercion!(to dyn Probe)))
            }
            (OpCode::ToUnion, Handle::ArcP(x)) => Handle::UnionP(ArcUnion::from_first(x)),
            (OpCode::ToUnion, Handle::ArcQ(x)) => Handle::UnionQ(ArcUnion::from_second(x)),
            // families with P == Q: the same allocation held as the *second* variant
            (OpCode::ToUnionCross, Handle::ArcP(x)) => match F::p_as_q(x) {
                Ok(q) => Handle::UnionQ(ArcUnion::from_second(q)),
                Err(p) => Handle::ArcP(p),
            },
            (OpCode::Erase, Handle::ArcP(x)) => Handle::ErasedP(x.into()),
            (OpCode::Erase, Handle::Sl(x)) => Handle::SlE(x.into()),
            (OpCode::Unerase, Handle::ErasedP(x)) => Handle::ArcP(x.into()),
            (OpCode::Unerase, Handle::SlE(x)) => Handle::Sl(x.into()),
            (OpCode::FromThin, Handle::Thin(x)) => Handle::Fat(Arc::from_thin(x)),
            (OpCode::ProtFromThin, Handle::Thin(x)) => Handle::Prot(Arc::protected_from_thin(x)),
            (OpCode::ProtIntoThin, Handle::Prot(x)) => Handle::Thin(Arc::protected_into_thin(x)),
            (OpCode::Shareable, Handle::UniP(x)) => Handle::ArcP(x.shareable()),
            (OpCode::Shareable, Handle::UniDynP(x)) => Handle::DynP(x.shareable()),
            #[cfg(feature = "cfg_a")]
            (OpCode::UnsizeDyn, Handle::UniP(x)) => {
                use unsize::CoerceUnsize;
                Handle::UniDynP(x.unsize(unsize::Coercion!(to dyn Probe)))
            }
            (OpCode::Shareable, Handle::UniHs(x)) => Handle::Hs(x.shareable()),
            (OpCode::Shareable, Handle::UniSl(x)) => Handle::Sl(x.shareable()),
            (OpCode::Shareable, Handle::UniMuP(x)) => Handle::MuP(x.shareable()),
            (OpCode::Shareable, Handle::UniSlMu(x)) => Handle::SlMu(x.shareable()),
            (OpCode::Shareable, Handle::UniFat(x)) => Handle::Fat(x.shareable()),
            // arc-swap allocates per-thread bookkeeping of its own: not part of the ledger
            #[cfg(feature = "cfg_a")]
            (OpCode::SwapWrap, Handle::ArcP(x)) => untracked(|| Handle::SwapP(arc_swap::ArcSwapAny::new(x))),
            #[cfg(feature = "cfg_a")]
            (OpCode::SwapWrap, Handle::Thin(x)) => untracked(|| Handle::SwapThin(arc_swap::ArcSwapAny::new(x))),
            #[cfg(feature = "cfg_a")]
            (OpCode::SwapUnwrap, Handle::SwapP(x)) => untracked(|| Handle::ArcP(x.into_inner())),
            #[cfg(feature = "cfg_a")]
            (OpCode::SwapUnwrap, Handle::SwapThin(x)) => untracked(|| Handle::Thin(x.into_inner())),
            #[cfg(feature = "cfg_a")]
            (OpCode::RefCntTrip, Handle::ArcP(x)) => {
                use arc_swap::RefCnt;
                let p = <Arc<F::P> as RefCnt>::into_ptr(x);
                Handle::ArcP(unsafe { <Arc<F::P> as RefCnt>::from_ptr(p) })
            }
            #[cfg(feature = "cfg_a")]
            (OpCode::RefCntTrip, Handle::Thin(x)) => {
                use arc_swap::RefCnt;
                let p = <ThinArc<F::H, F::E> as RefCnt>::into_ptr(x);
                Handle::Thin(unsafe { <ThinArc<F::H, F::E> as RefCnt>::from_ptr(p) })
            }
            (_, h) => h,
        });
        self.put(g, Slot { h: nh, ai });
        Done(exp)
    }

    /// arc-swap: exchange the Arc held in the cell (slot a) with the Arc in slot b.
    #[cfg(feature = "cfg_a")]
    fn o_swap_exchange(&mut self, op: &Op) -> Outcome {
        let (a, b) = (op.a, op.b);
        if self.par || !self.has(a) || !self.has(b) || a == b {
            return Skipped;
        }
        match (self.kind(a), self.kind(b)) {
            (Some(Kind::SwapP), Some(Kind::ArcP)) | (Some(Kind::SwapThin), Some(Kind::Thin)) => {}
            _ => return Skipped,
        }
        let (ai, bi) = (self.ai(a), self.ai(b));
        let Slot { h: hb, .. } = self.take(b);
        let old: Handle<F> = {
            let sa = self.slot(a);
            match (&sa.h, hb) {
                (Handle::SwapP(cell), Handle::ArcP(x)) => untracked(|| Handle::ArcP(if op.c % 2 == 0 { cell.swap(x) } else { let o = cell.load_full(); cell.store(x); o })),
                (Handle::SwapThin(cell), Handle::Thin(x)) => untracked(|| Handle::Thin(cell.swap(x))),
                _ => unreachable!(),
            }
        };
        self.slot(a).ai = bi;
        self.put(b, Slot { h: old, ai });
        // ownership moved both ways; arc-swap may add and remove transient counts (net zero),
        // except that the load_full+store variant clones the old value and drops the stored one
        Done(Exp::default())
    }
    #[cfg(not(feature = "cfg_a"))]
    fn o_swap_exchange(&mut self, _op: &Op) -> Outcome {
        Skipped
    }

    fn o_move(&mut self, op: &Op) -> Outcome {
        if !self.has(op.a) || !self.free(op.b) {
            return Skipped;
        }
        let s = self.take(op.a);
        self.put(op.b, s);
        Done(Exp { no_rmw: true, no_alloc: true, ..Exp::default() })
    }

    // --------------------------------------------------------------------------------------
    // inspection (must change nothing, even when the user code they call panics)

    fn o_inspect(&mut self, op: &Op) -> Outcome {
        let g = op.a;
        if !self.has(g) {
            return Skipped;
        }
        let what = op.text();
        self.touched.push(g);
        match op.code {
            OpCode::Read | OpCode::Counts => Done(Exp { no_rmw: false, ..Exp::default() }),
            OpCode::WithArcNoop => {
                let s = &self.slots[g as usize - self.base].as_ref().unwrap().h;
                let r = guarded(|| match s {
                    Handle::Thin(x) => {
                        x.with_arc(|_| {
                            callback(Cb::Closure);
                            callback(Cb::Closure);
                        });
                        true
                    }
                    Handle::OffP(x) => {
                        x.with_arc(|_| {
                            callback(Cb::Closure);
                            callback(Cb::Closure);
                        });
                        true
                    }
                    Handle::ArcP(x) => {
                        if op.c % 2 == 0 {
                            x.borrow_arc().with_arc(|_| {
                                callback(Cb::Closure);
                                callback(Cb::Closure);
                            });
                        } else {
                            x.with_raw_offset_arc(|_| {
                                callback(Cb::Closure);
                                callback(Cb::Closure);
                            });
                        }
                        true
                    }
                    Handle::UnionQ(x) => {
                        x.as_second().unwrap().with_arc(|_| {
                            callback(Cb::Closure);
                            callback(Cb::Closure);
                        });
                        true
                    }
                    _ => false,
                });
                match r {
                    Ok(false) => Skipped,
                    Ok(true) => Done(Exp { no_rmw: true, no_alloc: true, ..Exp::default() }),
                    Err(p) => {
                        self.classify_panic(&what, &p, false);
                        drop(p);
                        Done(Exp { no_rmw: true, ..Exp::default() })
                    }
                }
            }
            OpCode::HashOp | OpCode::FmtOp => {
                let s = &self.slots[g as usize - self.base].as_ref().unwrap().h;
                let r = guarded(|| {
                    use std::hash::{Hash, Hasher};
                    let mut hs = std::collections::hash_map::DefaultHasher::new();
                    if op.code == OpCode::HashOp {
                        match s {
                            Handle::ArcP(x) => x.hash(&mut hs),
                            Handle::Hs(x) => x.hash(&mut hs),
                            Handle::Sl(x) => x.hash(&mut hs),
                            Handle::Thin(x) => x.hash(&mut hs),
                            Handle::Fat(x) => x.hash(&mut hs),
                            Handle::Str(x) => x.hash(&mut hs),
                            _ => return false,
                        }
                        let _ = hs.finish();
                        true
                    } else {
                        let out = match s {
                            Handle::ArcP(x) => format!("{:?} {:p}", x, x),
                            Handle::OffP(x) => format!("{:?}", x),
                            Handle::Thin(x) => format!("{:?} {:p}", x, x),
                            Handle::UnionP(x) | Handle::UnionQ(x) => format!("{:?}", x),
                            Handle::Hs(x) => format!("{:?}", x),
                            Handle::Sl(x) => format!("{:?}", x),
                            Handle::Str(x) => format!("{:?} {}", x, x),
                            Handle::Fat(x) => format!("{:?}", x),
                            _ => return false,
                        };
                        drop(out);
                        true
                    }
                });
                match r {
                    Ok(false) => Skipped,
                    Ok(true) => Done(Exp { no_rmw: true, ..Exp::default() }),
                    Err(p) => {
                        self.classify_panic(&what, &p, false);
                        drop(p);
                        Done(Exp { no_rmw: true, ..Exp::default() })
                    }
                }
            }
            OpCode::CmpEq | OpCode::CmpOrd | OpCode::PtrEq => {
                let h = op.b;
                if !self.has(h) {
                    return Skipped;
                }
                self.touched.push(h);
                let (ai, bi) = (self.ai(g), self.ai(h));
                let sa = &self.slots[g as usize - self.base].as_ref().unwrap().h;
                let sb = &self.slots[h as usize - self.base].as_ref().unwrap().h;
                // model-side answer
                let (same_alloc, contents_eq) = if ai == NOAI || bi == NOAI {
                    (false, false)
                } else {
                    self.env.m(|m| {
                        let (x, y) = (&m.allocs[ai], &m.allocs[bi]);
                        (ai == bi, x.val == y.val && x.header == y.header && x.elems == y.elems && x.hlen == y.hlen && x.s == y.s)
                    })
                };
                let r = guarded(|| -> Option<(bool, &'static str)> {
                    match op.code {
                        OpCode::CmpEq => match (sa, sb) {
                            (Handle::ArcP(x), Handle::ArcP(y)) => Some(((x == y) && !(x != y), "arc")),
                            (Handle::ErasedP(x), Handle::ErasedP(y)) => Some((x == y, "arc")),
                            (Handle::Hs(x), Handle::Hs(y)) => Some(((x == y) && !(x != y), "arc")),
                            (Handle::Sl(x), Handle::Sl(y)) => Some((x == y, "arc")),
                            (Handle::Fat(x), Handle::Fat(y)) => Some((x == y, "arc")),
                            (Handle::Thin(x), Handle::Thin(y)) => Some((x == y, "arc")),
                            (Handle::Str(x), Handle::Str(y)) => Some((x == y, "arc")),
                            (Handle::OffP(x), Handle::OffP(y)) => Some(((x == y) && !(x != y), "value")),
                            // "never compare equal": neither `==` says equal nor `!=` says not-unequal, in either order
                            (Handle::UnionP(x), Handle::UnionQ(y)) | (Handle::UnionQ(y), Handle::UnionP(x)) => Some(((x == y) || !(x != y) || (y == x) || !(y != x), "union-mixed")),
                            (Handle::UnionP(x), Handle::UnionP(y)) | (Handle::UnionQ(x), Handle::UnionQ(y)) => {
                                let _ = x == y;
                                Some((false, "unchecked"))
                            }
                            _ => None,
                        },
                        OpCode::CmpOrd => match (sa, sb) {
                            (Handle::ArcP(x), Handle::ArcP(y)) => {
                                let _ = (x.partial_cmp(y), x.cmp(y), x < y, x <= y, x > y, x >= y);
                                Some((false, "unchecked"))
                            }
                            (Handle::Hs(x), Handle::Hs(y)) => {
                                let _ = (x.partial_cmp(y), x.cmp(y), x < y);
                                Some((false, "unchecked"))
                            }
                            (Handle::Sl(x), Handle::Sl(y)) => {
                                let _ = (x.partial_cmp(y), x.cmp(y));
                                Some((false, "unchecked"))
                            }
                            (Handle::Thin(x), Handle::Thin(y)) => {
                                let _ = (x.partial_cmp(y), x.cmp(y), x < y);
                                Some((false, "unchecked"))
                            }
                            (Handle::Fat(x), Handle::Fat(y)) => {
                                let _ = (x.partial_cmp(y), x.cmp(y));
                                Some((false, "unchecked"))
                            }
                            _ => None,
                        },
                        _ => match (sa, sb) {
                            (Handle::ArcP(x), Handle::ArcP(y)) => {
                                let bx = x.borrow_arc();
                                let by = y.borrow_arc();
                                let r1 = Arc::ptr_eq(x, y);
                                let r2 = triomphe::ArcBorrow::ptr_eq(&bx, &by);
                                if r1 != r2 {
                                    Some((!same_alloc, "ptr"))
                                } else {
                                    Some((r1, "ptr"))
                                }
                            }
                            (Handle::Hs(x), Handle::Hs(y)) => Some((Arc::ptr_eq(x, y), "ptr")),
                            (Handle::Sl(x), Handle::Sl(y)) => Some((Arc::ptr_eq(x, y), "ptr")),
                            (Handle::DynP(x), Handle::DynP(y)) => Some((Arc::ptr_eq(x, y), "ptr")),
                            (Handle::UnionP(x), Handle::UnionP(y)) | (Handle::UnionQ(x), Handle::UnionQ(y)) => Some((ArcUnion::ptr_eq(x, y), "ptr")),
                            (Handle::UnionP(x), Handle::UnionQ(y)) | (Handle::UnionQ(y), Handle::UnionP(x)) => Some((ArcUnion::ptr_eq(x, y), "ptr-mixed")),
                            _ => None,
                        },
                    }
                });
                match r {
                    Ok(None) => Skipped,
                    Ok(Some((got, mode))) => {
                        let want = match mode {
                            // whether == sees through the pointer is a pure function of the two values
                            // (property C14, not decided by this technique): only state changes are checked
                            "arc" | "value" => None,
                            "ptr" => Some(same_alloc),
                            "union-mixed" | "ptr-mixed" => Some(false),
                            _ => None,
                        };
                        if let Some(w) = want {
                            if got != w {
                                violation(
                                    if mode.starts_with("union") || mode == "ptr-mixed" { "union-eq" } else if mode == "ptr" { "ptr-eq" } else { "eq-mismatch" },
                                    format!("`{}`: comparison answered {} but the model says {} (same allocation: {}, equal contents: {})", what, got, w, same_alloc, contents_eq),
                                );
                            }
                        }
                        Done(Exp { no_rmw: true, no_alloc: true, ..Exp::default() })
                    }
                    Err(p) => {
                        self.classify_panic(&what, &p, false);
                        drop(p);
                        Done(Exp { no_rmw: true, ..Exp::default() })
                    }
                }
            }
            _ => Skipped,
        }
    }

    // --------------------------------------------------------------------------------------
    // release

    fn o_drop(&mut self, op: &Op) -> Outcome {
        let g = op.a;
        if !self.has(g) {
            return Skipped;
        }
        let Slot { h, ai } = self.take(g);
        let mut exp = Exp::default();
        if let Handle::ValP(p) = h {
            if F::P::ZST {
                exp.zst_drops += 1;
            } else if F::P::TRACKED {
                exp.drops.push(p.raw());
            }
            let prev = set_drop_ctx(true);
            let r = guarded(|| drop(p));
            set_drop_ctx(prev);
            if let Err(p) = r {
                drop(p);
            }
            return Done(exp);
        }
        let (last, uninit, written) = self.env.m(|m| {
            let a = &m.allocs[ai];
            let w: Vec<u32> = if a.uninit {
                a.elems.iter().zip(a.written.iter()).filter(|(_, w)| **w).map(|(e, _)| *e).filter(|e| *e != 0).chain(if a.class == Class::P && a.written.first() == Some(&true) { a.val } else { None }).collect()
            } else {
                vec![]
            };
            (a.owners == 1, a.uninit, w)
        });
        self.release(ai, &mut exp);
        if last {
            probes::hit(match h.kind() {
                Kind::Thin => P_LAST_OWNER_THIN,
                Kind::OffP => P_LAST_OWNER_OFFSET,
                Kind::UnionP | Kind::UnionQ => P_LAST_OWNER_UNION,
                Kind::RawP | Kind::RawDyn | Kind::RawSl | Kind::RawThin => P_LAST_OWNER_RAW,
                Kind::DynP => P_LAST_OWNER_DYN,
                Kind::UniP | Kind::UniHs | Kind::UniSl | Kind::UniHsMu | Kind::UniSlMu | Kind::UniMuP | Kind::UniFat | Kind::UniFatMu | Kind::UniDynP => P_LAST_OWNER_UNIQUE,
                Kind::SwapP | Kind::SwapThin => P_LAST_OWNER_SWAP,
                _ => P_OP_SKIPPED + 0,
            });
            if uninit {
                probes::hit(if written.is_empty() { P_UNINIT_DROPPED_EMPTY } else { P_UNINIT_DROPPED_PARTIAL });
                // values written into a still-uninitialised allocation are never destroyed
                for id in &written {
                    mark_forgotten(*id);
                }
                let zw = self.env.m(|m| {
                    let a = &m.allocs[ai];
                    let z = match a.class {
                        Class::P => F::P::ZST && F::P::TRACKED,
                        _ => F::E::ZST && F::E::TRACKED,
                    };
                    if z { a.written.iter().filter(|w| **w).count() as i64 } else { 0 }
                });
                self.env.m(|m| m.forgotten_zst += zw);
            }
            let creator = self.env.m(|m| m.allocs[ai].created_by);
            if creator as usize != self.t {
                probes::hit(P_DESTROYER_NOT_CREATOR);
            }
        }
        // a destructor that panics (injected) must change nothing about the release: every other
        // piece is still destroyed and the block still goes back to the allocator
        let armed = !matches!(h.kind(), Kind::SwapP | Kind::SwapThin);
        let prev = set_drop_ctx(armed);
        let r = guarded(|| match h {
            Handle::RawP(p) => drop(unsafe { Arc::from_raw(p.0) }),
            Handle::RawSl(p) => drop(unsafe { Arc::from_raw_slice(p.0) }),
            Handle::RawDyn(p) => drop(unsafe { Arc::from_raw(p.0) }),
            Handle::RawThin(p) => drop(unsafe { ThinArc::<F::H, F::E>::from_raw(p.0) }),
            #[cfg(feature = "cfg_a")]
            Handle::SwapP(s) => untracked(|| drop(s)),
            #[cfg(feature = "cfg_a")]
            Handle::SwapThin(s) => untracked(|| drop(s)),
            other => drop(other),
        });
        set_drop_ctx(prev);
        if let Err(p) = r {
            if !matches!(is_injected(&p), Some((Cb::Drop, _))) {
                violation("unexpected-panic", format!("`{}` panicked: {}", op.text(), panic_msg(&p)));
            }
            drop(p);
        }
        Done(exp)
    }

    // --------------------------------------------------------------------------------------
    // mailboxes

    fn o_mail(&mut self, op: &Op) -> Outcome {
        match op.code {
            OpCode::Send => {
                let (g, mb) = (op.a, op.b as usize % NMAIL);
                if !self.has(g) {
                    return Skipped;
                }
                // arc-swap cells stay on their thread
                if matches!(self.kind(g), Some(Kind::SwapP) | Some(Kind::SwapThin)) {
                    return Skipped;
                }
                let s = self.take(g);
                let c = sim::release_clock();
                self.env.mail.lock().unwrap_or_else(|e| e.into_inner())[mb].push_back((s, c));
                probes::hit(P_MAIL_SEND);
                Done(Exp { no_rmw: true, no_alloc: true, ..Exp::default() })
            }
            _ => {
                let (mb, dst) = (op.a as usize % NMAIL, op.b);
                if !self.free(dst) {
                    return Skipped;
                }
                let got = self.env.mail.lock().unwrap_or_else(|e| e.into_inner())[mb].pop_front();
                match got {
                    None => Skipped,
                    Some((s, c)) => {
                        sim::acquire_clock(&c);
                        self.put(dst, s);
                        probes::hit(P_MAIL_RECV);
                        Done(Exp { no_rmw: true, no_alloc: true, ..Exp::default() })
                    }
                }
            }
        }
    }
}

pub fn dispatch<F: Family>(cx: &mut Cx<'_, F>, op: &Op) -> Outcome {
    use OpCode::*;
    match op.code {
        NewP | FromP | FromBoxP | DefaultP | NewQ | UniNewP | MuNew | UniMuNew => cx.c_sized(op),
        HsIter | HsVec | HsSlice | SlVec | SlIter | UniSlIter | SlSlice | StrFrom | HStrFrom | FatIter | ThinIter | ThinSlice
        | SlMuNew | UniSlMuNew | UniHsMuNew | UniFatMuNew => cx.c_slice(op),
        HugeNew => cx.c_huge(op),
        Clone | BorrowCloneArc | OffCloneArc | WithArcClone | SwapLoadFull => cx.o_clone(op),
        CloneShared | ReadShared => cx.o_shared(op),
        CloneFrom => cx.o_clone_from(op),
        ToOffset | FromOffset | IntoRaw | FromRaw | FromRawAsDyn | UnsizeDyn | ToUnion | ToUnionCross | Erase | Unerase | IntoThin | FromThin
        | ProtFromThin | ProtIntoThin | Shareable | SwapWrap | SwapUnwrap | RefCntTrip => cx.o_convert(op),
        MoveSlot => cx.o_move(op),
        SwapExchange => cx.o_swap_exchange(op),
        Read | Counts | CmpEq | CmpOrd | HashOp | FmtOp | PtrEq | WithArcNoop => cx.o_inspect(op),
        GetMut | GetUnique | IsUnique | TryUnique | TryUnwrap | TryFromUni | MakeMut | MakeUnique | UnwrapOrClone | IntoInner
        | DepWrite | DepAsMutSlice | ThinMutGetMut | ThinMutReplace | ThinMutNoop | UniWrite | DeInPlace => crate::exec_uniq::uniq(cx, op),
        WriteSlot | AssumeInit => crate::exec_uniq::uninit(cx, op),
        Drop => cx.o_drop(op),
        Send | Recv => cx.o_mail(op),
    }
}

//! Uniqueness-gated operations (get_mut, try_unique, make_mut, try_unwrap, with_arc_mut, ...)
//! and uninitialised construction (write slot, assume_init).

use crate::exec::Deliberate;
use crate::family::Family;
use crate::handle::*;
use crate::interp::*;
use crate::model::*;
use crate::ops::*;
use crate::probes::{self, *};
use crate::shapes::*;
use std::convert::TryFrom;
use std::mem::MaybeUninit;
use triomphe::{Arc, OffsetArc, UniqueArc};
use triomphe_verif_rt::violation;

impl<'a, F: Family> Cx<'a, F> {
    /// Check a uniqueness verdict against the model's owner count.
    fn verdict(&self, what: &str, ai: usize, granted: bool) {
        let owners = self.owners(ai);
        if granted {
            probes::hit(if self.par { P_UNIQ_GRANTED_PAR } else { P_UNIQ_GRANTED });
            // from here on the holder may write the payload bytes: must be ordered after every
            // other thread's reads and counter operations on this allocation
            let block = self.env.m(|m| m.allocs[ai].block);
            triomphe_verif_rt::sim::access(triomphe_verif_rt::sim::Space::Block, block, triomphe_verif_rt::sim::Access::Write);
            if owners != 1 {
                violation(
                    "verdict:granted-while-shared",
                    format!("`{}` granted unique access although {} owning handles exist", what, owners),
                );
            }
        } else {
            probes::hit(P_UNIQ_DECLINED);
            if owners == 1 {
                if self.par {
                    probes::hit(P_UNIQ_DECLINED_STALE);
                } else {
                    violation(
                        "verdict:declined-while-unique",
                        format!("`{}` declined although this handle is the only owner", what),
                    );
                }
            }
        }
    }

    /// In parallel sections an op that may release an owner inside the library call must be
    /// counted as released *before* the call (see DESIGN: model decrements lead, increments lag).
    fn pre_release(&self, ai: usize) {
        if self.par {
            self.env.m(|m| m.allocs[ai].owners -= 1);
        }
    }
    fn undo_pre_release(&self, ai: usize) {
        if self.par {
            self.env.m(|m| m.allocs[ai].owners += 1);
        }
    }
    /// The release turned out to have happened.
    fn confirm_release(&self, ai: usize, exp: &mut Exp) {
        if self.par {
            let b = self.env.m(|m| m.allocs[ai].block);
            exp.delta(b, -1);
            exp.maybe.push(ai);
        } else {
            self.release(ai, exp);
        }
    }

    /// Sole ownership / mutable access was granted: from here on the holder may write without
    /// further synchronisation, so the grant itself must be ordered after every earlier access.
    fn grant_access(&self, ai: usize, kind: triomphe_verif_rt::sim::Access) {
        let ids: Vec<u32> = self.env.m(|m| {
            let a = &m.allocs[ai];
            let mut v = Vec::new();
            if let Some(x) = a.val {
                if !a.uninit {
                    v.push(x);
                }
            }
            if let Some(h) = a.header {
                v.push(h);
            }
            if a.elems_tracked && !a.uninit {
                v.extend(a.elems.iter().copied().filter(|e| *e != 0));
            }
            v
        });
        for id in ids {
            triomphe_verif_rt::sim::access(triomphe_verif_rt::sim::Space::Ident, id, kind);
        }
    }

    fn set_val(&self, ai: usize, id: u32) {
        self.env.m(|m| m.allocs[ai].val = if id == 0 { None } else { Some(id) });
    }
}

fn rewrite_hs<H: Shape, E: Shape>(header: &mut H, slice: &mut [E], sel: u32) -> (Option<u32>, Option<(usize, u32)>) {
    if !H::ZST && (sel % 2 == 0 || slice.is_empty() || E::ZST) {
        (Some(header.rewrite()), None)
    } else if !slice.is_empty() && !E::ZST {
        let i = (sel as usize / 2) % slice.len();
        (None, Some((i, slice[i].rewrite())))
    } else {
        (None, None)
    }
}

pub fn uniq<F: Family>(cx: &mut Cx<'_, F>, op: &Op) -> Outcome {
    let g = op.a;
    if !cx.has(g) {
        return Skipped;
    }
    let k = cx.kind(g).unwrap();
    let what = op.text();
    let ai = cx.ai(g);
    if ai == NOAI {
        return Skipped;
    }
    match op.code {
        // ------------------------------------------------------------------ &mut by verdict
        OpCode::GetMut | OpCode::GetUnique | OpCode::IsUnique => {
            let sel = op.c;
            let code = op.code;
            let slot = cx.slot(g);
            // returns (granted, new value id, new header id, new element)
            let r = guarded(|| -> Option<(bool, Option<u32>, Option<u32>, Option<(usize, u32)>)> {
                macro_rules! sized {
                    ($x:expr) => {{
                        match code {
                            OpCode::GetMut => match Arc::get_mut($x) {
                                Some(p) => Some((true, Some(p.rewrite()), None, None)),
                                None => Some((false, None, None, None)),
                            },
                            OpCode::GetUnique => match Arc::get_unique($x) {
                                Some(u) => Some((true, Some((**u).rewrite()), None, None)),
                                None => Some((false, None, None, None)),
                            },
                            _ => Some(($x.is_unique(), None, None, None)),
                        }
                    }};
                }
                match &mut slot.h {
                    Handle::ArcP(x) => sized!(x),
                    Handle::ArcQ(x) => sized!(x),
                    Handle::ErasedP(x) => match code {
                        OpCode::GetMut => match Arc::get_mut(x) {
                            Some(p) => Some((true, Some(p.slice.rewrite()), None, None)),
                            None => Some((false, None, None, None)),
                        },
                        OpCode::GetUnique => match Arc::get_unique(x) {
                            Some(u) => Some((true, Some(u.slice.rewrite()), None, None)),
                            None => Some((false, None, None, None)),
                        },
                        _ => Some((x.is_unique(), None, None, None)),
                    },
                    Handle::Hs(x) => match code {
                        OpCode::GetMut => match Arc::get_mut(x) {
                            Some(p) => {
                                let (h, e) = rewrite_hs(&mut p.header, &mut p.slice, sel);
                                Some((true, None, h, e))
                            }
                            None => Some((false, None, None, None)),
                        },
                        OpCode::GetUnique => match Arc::get_unique(x) {
                            Some(u) => {
                                let p = &mut **u;
                                let (h, e) = rewrite_hs(&mut p.header, &mut p.slice, sel);
                                Some((true, None, h, e))
                            }
                            None => Some((false, None, None, None)),
                        },
                        _ => Some((x.is_unique(), None, None, None)),
                    },
                    Handle::Sl(x) => match code {
                        OpCode::GetMut => match Arc::get_mut(x) {
                            Some(p) => {
                                let (_, e) = rewrite_hs(&mut Z0Dummy, p, sel | 1);
                                Some((true, None, None, e))
                            }
                            None => Some((false, None, None, None)),
                        },
                        OpCode::GetUnique => match Arc::get_unique(x) {
                            Some(u) => {
                                let (_, e) = rewrite_hs(&mut Z0Dummy, &mut **u, sel | 1);
                                Some((true, None, None, e))
                            }
                            None => Some((false, None, None, None)),
                        },
                        _ => Some((x.is_unique(), None, None, None)),
                    },
                    Handle::Fat(x) => match code {
                        OpCode::GetMut => match Arc::get_mut(x) {
                            Some(p) => {
                                let (h, e) = rewrite_hs(&mut p.header.header, &mut p.slice, sel);
                                Some((true, None, h, e))
                            }
                            None => Some((false, None, None, None)),
                        },
                        OpCode::GetUnique => match Arc::get_unique(x) {
                            Some(u) => {
                                let p = &mut **u;
                                let (h, e) = rewrite_hs(&mut p.header.header, &mut p.slice, sel);
                                Some((true, None, h, e))
                            }
                            None => Some((false, None, None, None)),
                        },
                        _ => Some((x.is_unique(), None, None, None)),
                    },
                    Handle::DynP(x) => match code {
                        OpCode::IsUnique => Some((x.is_unique(), None, None, None)),
                        OpCode::GetMut => Some((Arc::get_mut(x).is_some(), None, None, None)),
                        _ => Some((Arc::get_unique(x).is_some(), None, None, None)),
                    },
                    Handle::Str(x) => match code {
                        OpCode::IsUnique => Some((x.is_unique(), None, None, None)),
                        OpCode::GetMut => Some((Arc::get_mut(x).is_some(), None, None, None)),
                        _ => Some((Arc::get_unique(x).is_some(), None, None, None)),
                    },
                    Handle::OffP(x) if code == OpCode::IsUnique => Some((x.with_arc(|a| a.is_unique()), None, None, None)),
                    Handle::Thin(x) if code == OpCode::IsUnique => Some((x.with_arc(|a| a.is_unique()), None, None, None)),
                    _ => None,
                }
            });
            match r {
                Ok(None) => Skipped,
                Ok(Some((granted, v, h, e))) => {
                    cx.verdict(&what, ai, granted);
                    cx.env.m(|m| {
                        let a = &mut m.allocs[ai];
                        if let Some(v) = v {
                            if v != 0 {
                                a.val = Some(v);
                            }
                        }
                        if let Some(h) = h {
                            a.header = Some(h);
                        }
                        if let Some((i, id)) = e {
                            a.elems[i] = id;
                        }
                    });
                    Done(Exp { no_rmw: true, no_alloc: true, ..Exp::default() })
                }
                Err(p) => violation("unexpected-panic", format!("`{}` panicked: {}", what, panic_msg(&p))),
            }
        }
        // ------------------------------------------------------------------ by-value verdicts
        OpCode::TryUnique | OpCode::TryFromUni => {
            if !matches!(k, Kind::ArcP | Kind::Hs | Kind::Sl | Kind::MuP | Kind::SlMu | Kind::Fat) {
                return Skipped;
            }
            let Slot { h, ai } = cx.take(g);
            let via_try_from = op.code == OpCode::TryFromUni;
            let (nh, granted): (Handle<F>, bool) = tracked(|| {
                macro_rules! go {
                    ($x:expr, $ok:ident, $err:ident) => {{
                        let r = if via_try_from { UniqueArc::try_from($x) } else { Arc::try_unique($x) };
                        match r {
                            Ok(u) => (Handle::$ok(u), true),
                            Err(a) => (Handle::$err(a), false),
                        }
                    }};
                }
                match h {
                    Handle::ArcP(x) => go!(x, UniP, ArcP),
                    Handle::Hs(x) => go!(x, UniHs, Hs),
                    Handle::Sl(x) => go!(x, UniSl, Sl),
                    Handle::MuP(x) => go!(x, UniMuP, MuP),
                    Handle::SlMu(x) => go!(x, UniSlMu, SlMu),
                    Handle::Fat(x) => go!(x, UniFat, Fat),
                    _ => unreachable!(),
                }
            });
            cx.verdict(&what, ai, granted);
            if granted {
                cx.grant_access(ai, triomphe_verif_rt::sim::Access::Write);
            }
            cx.put(g, Slot { h: nh, ai });
            Done(Exp { no_rmw: true, no_alloc: true, ..Exp::default() })
        }
        OpCode::TryUnwrap | OpCode::UnwrapOrClone => {
            if k != Kind::ArcP {
                return Skipped;
            }
            let orig = cx.env.m(|m| m.allocs[ai].val.unwrap_or(0));
            let Slot { h, ai } = cx.take(g);
            let Handle::ArcP(x) = h else { unreachable!() };
            let mut exp = Exp::default();
            if op.code == OpCode::TryUnwrap {
                match tracked(|| Arc::try_unwrap(x)) {
                    Ok(v) => {
                        cx.verdict(&what, ai, true);
                        probes::hit(P_UNWRAP_MOVED);
                        cx.grant_access(ai, triomphe_verif_rt::sim::Access::MoveOut);
                        if !F::P::ZST && v.raw() != orig {
                            violation("value-mismatch", format!("`{}` returned payload #{} but the allocation held #{}", what, v.raw(), orig));
                        }
                        cx.release_moved_out(ai, &mut exp);
                        cx.put(g, Slot { h: Handle::ValP(v), ai: NOAI });
                        exp.clones = Some((0, 0));
                    }
                    Err(a) => {
                        cx.verdict(&what, ai, false);
                        probes::hit(P_UNWRAP_KEPT);
                        cx.put(g, Slot { h: Handle::ArcP(a), ai });
                        exp.no_rmw = true;
                        exp.no_alloc = true;
                    }
                }
                return Done(exp);
            }
            // unwrap_or_clone: may release an owner inside the call
            cx.pre_release(ai);
            let r = guarded(|| Arc::unwrap_or_clone(x));
            match r {
                Ok(v) => {
                    let moved = if F::P::ZST {
                        // no identity: decided by whether Clone ran
                        reg(|r| r.ev[cx.t.min(3)].zst_clones == 0)
                    } else {
                        v.raw() == orig
                    };
                    if moved {
                        cx.undo_pre_release(ai);
                        cx.verdict(&what, ai, true);
                        probes::hit(P_UNWRAP_MOVED);
                        cx.grant_access(ai, triomphe_verif_rt::sim::Access::MoveOut);
                        cx.release_moved_out(ai, &mut exp);
                        exp.clones = Some((0, 0));
                    } else {
                        if !cx.par && cx.owners(ai) == 1 {
                            violation("verdict:declined-while-unique", format!("`{}` cloned the value although this handle was the only owner", what));
                        }
                        probes::hit(P_UNWRAP_KEPT);
                        cx.confirm_release(ai, &mut exp);
                        exp.clones = Some((1, usize::MAX));
                        let ok = reg(|r| r.ev[cx.t.min(3)].clones.iter().any(|c| c.0 == orig && c.1 == v.raw()));
                        if !F::P::ZST && !ok {
                            violation("value-mismatch", format!("`{}` returned payload #{} which is not a clone of #{}", what, v.raw(), orig));
                        }
                    }
                    cx.put(g, Slot { h: Handle::ValP(v), ai: NOAI });
                    Done(exp)
                }
                Err(p) => {
                    // Clone panicked: the consumed handle is released, nothing is returned
                    if is_injected(&p).is_none() {
                        violation("unexpected-panic", format!("`{}` panicked: {}", what, panic_msg(&p)));
                    }
                    drop(p);
                    cx.confirm_release(ai, &mut exp);
                    Done(exp)
                }
            }
        }
        OpCode::IntoInner => {
            if k != Kind::UniP {
                return Skipped;
            }
            let orig = cx.env.m(|m| m.allocs[ai].val.unwrap_or(0));
            let Slot { h, ai } = cx.take(g);
            let Handle::UniP(u) = h else { unreachable!() };
            let v = tracked(|| UniqueArc::into_inner(u));
            if !F::P::ZST && v.raw() != orig {
                violation("value-mismatch", format!("`{}` returned payload #{} but the allocation held #{}", what, v.raw(), orig));
            }
            let mut exp = Exp { clones: Some((0, 0)), no_rmw: true, ..Exp::default() };
            cx.release_moved_out(ai, &mut exp);
            probes::hit(P_UNWRAP_MOVED);
            cx.put(g, Slot { h: Handle::ValP(v), ai: NOAI });
            Done(exp)
        }
        // ------------------------------------------------------------------ copy-on-write
        OpCode::MakeMut | OpCode::MakeUnique => {
            if !matches!(k, Kind::ArcP | Kind::ArcQ | Kind::ErasedP | Kind::OffP) {
                return Skipped;
            }
            if op.code == OpCode::MakeUnique && k != Kind::ArcP {
                return Skipped;
            }
            let (old_val, old_ptr, class) = cx.env.m(|m| (m.allocs[ai].val.unwrap_or(0), m.allocs[ai].ptr, m.allocs[ai].class));
            cx.pre_release(ai);
            let mark = cx.mark;
            let _ = mark;
            let code = op.code;
            let slot = cx.slot(g);
            // returns the identity written through the returned reference
            let r = guarded(|| -> u32 {
                match &mut slot.h {
                    Handle::ArcP(x) => {
                        if code == OpCode::MakeMut {
                            Arc::make_mut(x).rewrite()
                        } else {
                            (**Arc::make_unique(x)).rewrite()
                        }
                    }
                    Handle::ArcQ(x) => Arc::make_mut(x).rewrite(),
                    Handle::ErasedP(x) => Arc::make_mut(x).slice.rewrite(),
                    Handle::OffP(x) => OffsetArc::make_mut(x).rewrite(),
                    _ => unreachable!(),
                }
            });
            // where does the handle point now?
            let now_ptr = {
                let s = cx.slots[g as usize - cx.base].as_ref().unwrap();
                match &s.h {
                    Handle::ArcP(x) => x.heap_ptr() as usize,
                    Handle::ArcQ(x) => x.heap_ptr() as usize,
                    Handle::ErasedP(x) => x.heap_ptr() as usize,
                    Handle::OffP(x) => {
                        let d = &**x as *const F::P as usize;
                        d - cx.env.m(|m| m.allocs[ai].data_off)
                    }
                    _ => unreachable!(),
                }
            };
            let mut exp = Exp::default();
            match r {
                Err(p) => {
                    // Clone panicked: the handle still refers to the old allocation, counts unchanged
                    if is_injected(&p).is_none() {
                        violation("unexpected-panic", format!("`{}` panicked: {}", what, panic_msg(&p)));
                    }
                    drop(p);
                    cx.undo_pre_release(ai);
                    if now_ptr != old_ptr {
                        violation("cow:moved-on-panic", format!("`{}`: Clone panicked but the handle no longer refers to its allocation", what));
                    }
                    Done(exp)
                }
                Ok(new_id) => {
                    if now_ptr == old_ptr {
                        // in place
                        cx.undo_pre_release(ai);
                        probes::hit(P_MAKE_MUT_INPLACE);
                        cx.verdict(&what, ai, true);
                        cx.set_val(ai, new_id);
                        exp.clones = Some((0, 0));
                        exp.no_alloc = true;
                        exp.no_rmw = true;
                        Done(exp)
                    } else {
                        probes::hit(P_MAKE_MUT_CLONED);
                        if !cx.par && cx.owners(ai) == 1 {
                            violation("verdict:declined-while-unique", format!("`{}` copied the value although this handle was the only owner", what));
                        }
                        // the clone must be a clone of the old value
                        let t = cx.t.min(3);
                        let ok = F::P::ZST && class == Class::P || reg(|r| r.ev[t].clones.iter().any(|c| c.0 == old_val)) || old_val == 0;
                        if !ok {
                            violation("cow:not-a-clone", format!("`{}`: the fresh allocation does not hold a clone of payload #{}", what, old_val));
                        }
                        cx.confirm_release(ai, &mut exp);
                        exp.clones = Some((1, usize::MAX));
                        exp.new_live = 1;
                        let mut a = cx.new_alloc(class, 0, &what);
                        a.val = if new_id == 0 { None } else { Some(new_id) };
                        a.zst_body = if new_id == 0 { 1 } else { 0 };
                        // the clone's own identity was retired by the rewrite; it never gets a destructor event
                        let nai = cx.push_alloc(a);
                        cx.slot(g).ai = nai;
                        Done(exp)
                    }
                }
            }
        }
        // ------------------------------------------------------------------ deprecated writers
        OpCode::DepWrite | OpCode::DepAsMutSlice => {
            let owners = cx.owners(ai);
            if cx.par {
                probes::hit(P_DEP_WRITE_PAR);
            }
            match (op.code, k) {
                (OpCode::DepWrite, Kind::MuP) => {
                    if !F::P::can_make(1) {
                        return Skipped;
                    }
                    let already = cx.env.m(|m| m.allocs[ai].written[0]);
                    if already {
                        return Skipped;
                    }
                    let v = F::P::fresh();
                    let id = v.raw();
                    let slot = cx.slot(g);
                    let Handle::MuP(x) = &mut slot.h else { unreachable!() };
                    #[allow(deprecated)]
                    let r = guarded(|| {
                        x.write(v);
                    });
                    let mut exp = Exp::default();
                    match r {
                        Ok(()) => {
                            cx.verdict(&what, ai, true);
                            cx.env.m(|m| {
                                m.allocs[ai].written[0] = true;
                                m.allocs[ai].val = if id == 0 { None } else { Some(id) };
                            });
                            exp.no_rmw = true;
                            exp.no_alloc = true;
                        }
                        Err(p) => {
                            drop(p);
                            probes::hit(P_DEP_WRITE_PANIC);
                            if owners == 1 && !cx.par {
                                violation("verdict:declined-while-unique", format!("`{}` panicked although this handle is the only owner", what));
                            }
                            // the value passed in is destroyed by the unwinding
                            if F::P::ZST {
                                exp.zst_drops += 1;
                            } else if F::P::TRACKED {
                                exp.drops.push(id);
                            }
                            exp.no_rmw = true;
                        }
                    }
                    Done(exp)
                }
                (OpCode::DepAsMutSlice, Kind::SlMu) => {
                    let n = cx.env.m(|m| m.allocs[ai].nelems);
                    if !F::E::can_make(1) {
                        return Skipped;
                    }
                    let i = if n == 0 { 0 } else { op.b as usize % n };
                    let already = n == 0 || cx.env.m(|m| m.allocs[ai].written[i]);
                    let slot = cx.slot(g);
                    let Handle::SlMu(x) = &mut slot.h else { unreachable!() };
                    #[allow(deprecated)]
                    let r = guarded(|| -> Option<u32> {
                        let s = x.as_mut_slice();
                        if !already {
                            let v = F::E::fresh();
                            let id = v.raw();
                            s[i].write(v);
                            Some(id)
                        } else {
                            None
                        }
                    });
                    let mut exp = Exp { no_rmw: true, ..Exp::default() };
                    match r {
                        Ok(w) => {
                            cx.verdict(&what, ai, true);
                            if let Some(id) = w {
                                cx.env.m(|m| {
                                    m.allocs[ai].written[i] = true;
                                    m.allocs[ai].elems[i] = id;
                                });
                            }
                            exp.no_alloc = true;
                        }
                        Err(p) => {
                            drop(p);
                            probes::hit(P_DEP_WRITE_PANIC);
                            if owners == 1 && !cx.par {
                                violation("verdict:declined-while-unique", format!("`{}` panicked although this handle is the only owner", what));
                            }
                        }
                    }
                    Done(exp)
                }
                _ => Skipped,
            }
        }
        // ------------------------------------------------------------------ ThinArc::with_arc_mut
        OpCode::ThinMutGetMut | OpCode::ThinMutNoop => {
            if k != Kind::Thin {
                return Skipped;
            }
            let sel = op.c;
            let code = op.code;
            let slot = cx.slot(g);
            let Handle::Thin(x) = &mut slot.h else { unreachable!() };
            let r = guarded(|| -> (bool, Option<u32>, Option<(usize, u32)>) {
                x.with_arc_mut(|a| {
                    callback(Cb::Closure);
                    let out = if code == OpCode::ThinMutGetMut {
                        let got = if sel % 2 == 0 { Arc::get_mut(a) } else { Arc::get_unique(a).map(|u| &mut **u) };
                        match got {
                            Some(p) => {
                                let (h, e) = if !F::H::ZST && (sel / 2) % 2 == 0 {
                                    (Some(p.header_mut().rewrite()), None)
                                } else if !p.slice().is_empty() && !F::E::ZST {
                                    let i = (sel as usize / 4) % p.slice().len();
                                    (None, Some((i, p.slice_mut()[i].rewrite())))
                                } else {
                                    (None, None)
                                };
                                (true, h, e)
                            }
                            None => (false, None, None),
                        }
                    } else {
                        if sel % 2 == 1 {
                            std::panic::panic_any(Deliberate);
                        }
                        (false, None, None)
                    };
                    callback(Cb::Closure);
                    out
                })
            });
            match r {
                Ok((granted, h, e)) => {
                    if code == OpCode::ThinMutGetMut {
                        cx.verdict(&what, ai, granted);
                        cx.env.m(|m| {
                            if let Some(h) = h {
                                m.allocs[ai].header = Some(h);
                            }
                            if let Some((i, id)) = e {
                                m.allocs[ai].elems[i] = id;
                            }
                        });
                    }
                    Done(Exp { no_rmw: true, no_alloc: true, ..Exp::default() })
                }
                Err(p) => {
                    // a write made before an injected end-of-closure panic stays (it happened);
                    // we only inject at closure boundaries so the model must follow the memory:
                    // re-read below through the per-step check after syncing the model
                    let injected_end = is_injected(&p).is_some();
                    if !injected_end && p.downcast_ref::<Deliberate>().is_none() {
                        violation("unexpected-panic", format!("`{}` panicked: {}", what, panic_msg(&p)));
                    }
                    drop(p);
                    if code == OpCode::ThinMutGetMut {
                        // the closure may have rewritten a value before the panic at its end
                        let s = cx.slots[g as usize - cx.base].as_ref().unwrap();
                        let Handle::Thin(x) = &s.h else { unreachable!() };
                        let hid = if F::H::ZST { None } else { Some(x.header.header.raw()) };
                        crate::handle::sane_len(x.slice.len());
                        let es: Vec<u32> = x.slice.iter().map(|e| e.raw()).collect();
                        cx.env.m(|m| {
                            m.allocs[ai].header = hid;
                            if es.len() == m.allocs[ai].elems.len() {
                                m.allocs[ai].elems = es;
                            }
                        });
                    }
                    Done(Exp { no_rmw: true, ..Exp::default() })
                }
            }
        }
        OpCode::ThinMutReplace => {
            // a: ThinArc whose with_arc_mut callback replaces the lent Arc by the handle in slot b
            let b = op.b;
            if k != Kind::Thin || !cx.has(b) || b == g {
                return Skipped;
            }
            let kb = cx.kind(b).unwrap();
            if !matches!(kb, Kind::Thin | Kind::Prot) {
                return Skipped;
            }
            let bi = cx.ai(b);
            let Slot { h: hb, .. } = cx.take(b);
            let mut repl: Option<Arc<Prot<F>>> = Some(match hb {
                Handle::Thin(t) => tracked(|| Arc::protected_from_thin(t)),
                Handle::Prot(p) => p,
                _ => unreachable!(),
            });
            let swap_mode = (op.c / 2) % 2 == 1;
            let panic_after = op.c % 2 == 1;
            let mut exp = Exp::default();
            if !swap_mode {
                // the old allocation loses the owner the ThinArc held
                cx.release(ai, &mut exp);
            }
            let slot = cx.slot(g);
            let Handle::Thin(x) = &mut slot.h else { unreachable!() };
            let r = guarded(|| {
                x.with_arc_mut(|a| {
                    if swap_mode {
                        std::mem::swap(a, repl.as_mut().unwrap());
                    } else {
                        *a = repl.take().unwrap();
                    }
                    if panic_after {
                        std::panic::panic_any(Deliberate);
                    }
                })
            });
            if let Err(p) = r {
                if p.downcast_ref::<Deliberate>().is_none() {
                    violation("unexpected-panic", format!("`{}` panicked: {}", what, panic_msg(&p)));
                }
                drop(p);
                probes::hit(P_THIN_REPLACE_PANIC);
            } else {
                probes::hit(P_THIN_REPLACE);
            }
            // the ThinArc now refers to the replacement
            cx.slot(g).ai = bi;
            if swap_mode {
                // and slot b gets the previous allocation back, as a protected fat Arc
                cx.put(b, Slot { h: Handle::Prot(repl.take().unwrap()), ai });
            }
            if swap_mode {
                exp.no_rmw = true;
                exp.no_alloc = !panic_after;
            }
            Done(exp)
        }
        OpCode::DeInPlace => {
            // serde's deserialize_in_place on an Arc<P>: either a fresh sole-owner allocation
            // replaces the handle (the old one loses an owner), or -- if an implementation reuses a
            // uniquely owned allocation -- the value is rebuilt in place, which is a write that
            // must be ordered after every former sharer's access.
            if !(k == Kind::ArcP || k == Kind::UniP) || !F::P::can_make(1) {
                return Skipped;
            }
            let bad = op.c >= 1000;
            let old_val = cx.env.m(|m| m.allocs[ai].val.unwrap_or(0));
            fn where_now<F: Family>(h: &Handle<F>) -> (usize, u32) {
                match h {
                    Handle::ArcP(x) => (x.as_ptr() as usize, x.raw()),
                    Handle::UniP(u) => (&**u as *const F::P as usize, (**u).raw()),
                    _ => unreachable!(),
                }
            }
            let (old_ptr, _) = where_now(&cx.slots[g as usize - cx.base].as_ref().unwrap().h);
            cx.pre_release(ai);
            let slot = cx.slot(g);
            let r = match &mut slot.h {
                Handle::ArcP(x) => guarded(|| F::de_in_place(x, op.c % 1000, bad)),
                Handle::UniP(u) => guarded(|| F::de_in_place_uni(u, op.c % 1000, bad)),
                _ => unreachable!(),
            };
            let (now_ptr, new_id) = where_now(&cx.slots[g as usize - cx.base].as_ref().unwrap().h);
            let mut exp = Exp::default();
            match r {
                Ok(None) => {
                    cx.undo_pre_release(ai);
                    Skipped
                }
                Ok(Some(Err(()))) if bad => {
                    // the payload's own deserialiser rejected the input before producing anything:
                    // the place keeps its handle, its value and its count, and nothing is destroyed
                    cx.undo_pre_release(ai);
                    if now_ptr != old_ptr || (!F::P::ZST && new_id != old_val) {
                        violation(
                            "value-mismatch",
                            format!("`{}` failed on malformed input, yet the place now holds payload #{} at {:#x} instead of #{} at {:#x}", what, new_id, now_ptr, old_val, old_ptr),
                        );
                    }
                    probes::hit(P_DE_IN_PLACE_ERR);
                    Done(exp)
                }
                Ok(Some(Ok(()))) if !bad => {
                    if now_ptr == old_ptr {
                        // rebuilt in place: only legal for a sole owner; the old value was destroyed
                        cx.undo_pre_release(ai);
                        cx.verdict(&what, ai, true);
                        if old_val != 0 {
                            if F::P::TRACKED {
                                exp.drops.push(old_val);
                            }
                        } else if F::P::ZST {
                            exp.zst_drops += 1;
                        }
                        cx.set_val(ai, new_id);
                        exp.no_rmw = true;
                    } else {
                        cx.confirm_release(ai, &mut exp);
                        exp.new_live = 1;
                        let mut a = cx.new_alloc(Class::P, 0, &what);
                        a.val = if new_id == 0 { None } else { Some(new_id) };
                        a.zst_body = if F::P::ZST { 1 } else { 0 };
                        let nai = cx.push_alloc(a);
                        cx.slot(g).ai = nai;
                    }
                    Done(exp)
                }
                Ok(Some(Ok(()))) => {
                    violation("serde:de-differs", format!("`{}` reported success on input that the payload's own deserialiser rejects", what));
                }
                Ok(Some(Err(()))) | Err(_) => {
                    violation("unexpected-panic", format!("`{}` failed although the input is well-formed", what));
                }
            }
        }
        OpCode::UniWrite => {
            let sel = op.c;
            let slot = cx.slot(g);
            let r: Option<(Option<u32>, Option<u32>, Option<(usize, u32)>)> = match &mut slot.h {
                Handle::UniP(u) => Some((Some((**u).rewrite()), None, None)),
                Handle::UniHs(u) => {
                    let p = &mut **u;
                    let (h, e) = rewrite_hs(&mut p.header, &mut p.slice, sel);
                    Some((None, h, e))
                }
                Handle::UniSl(u) => {
                    let (_, e) = rewrite_hs(&mut Z0Dummy, &mut **u, sel | 1);
                    Some((None, None, e))
                }
                Handle::UniFat(u) => {
                    let p = &mut **u;
                    let (h, e) = rewrite_hs(&mut p.header.header, &mut p.slice, sel);
                    Some((None, h, e))
                }
                _ => None,
            };
            match r {
                None => Skipped,
                Some((v, h, e)) => {
                    cx.env.m(|m| {
                        let a = &mut m.allocs[ai];
                        if let Some(v) = v {
                            if v != 0 {
                                a.val = Some(v);
                            }
                        }
                        if let Some(h) = h {
                            a.header = Some(h);
                        }
                        if let Some((i, id)) = e {
                            a.elems[i] = id;
                        }
                    });
                    Done(Exp { no_rmw: true, no_alloc: true, ..Exp::default() })
                }
            }
        }
        _ => Skipped,
    }
}

/// Header stand-in for slices without a header (zero-sized, untracked).
struct Z0Dummy;
impl Shape for Z0Dummy {
    const NAME: &'static str = "()";
    const TRACKED: bool = false;
    const IDW: usize = 0;
    fn fresh() -> Self {
        Z0Dummy
    }
    fn raw(&self) -> u32 {
        0
    }
    fn rewrite(&mut self) -> u32 {
        0
    }
}

pub fn uninit<F: Family>(cx: &mut Cx<'_, F>, op: &Op) -> Outcome {
    let g = op.a;
    if !cx.has(g) {
        return Skipped;
    }
    let k = cx.kind(g).unwrap();
    let ai = cx.ai(g);
    let what = op.text();
    if ai == NOAI {
        return Skipped;
    }
    match op.code {
        OpCode::WriteSlot => {
            let n = cx.env.m(|m| m.allocs[ai].nelems);
            let method = op.c;
            match k {
                Kind::UniMuP | Kind::MuP => {
                    if !F::P::can_make(1) {
                        return Skipped;
                    }
                    if k == Kind::MuP && (cx.par || cx.owners(ai) != 1) {
                        return Skipped;
                    }
                    let prev = cx.env.m(|m| if m.allocs[ai].written[0] { m.allocs[ai].val } else { None });
                    let was_written = cx.env.m(|m| m.allocs[ai].written[0]);
                    if was_written && F::P::ZST {
                        return Skipped;
                    }
                    let v = F::P::fresh();
                    let id = v.raw();
                    let slot = cx.slot(g);
                    tracked(|| match &mut slot.h {
                        Handle::UniMuP(u) => match method % 3 {
                            0 => {
                                u.write(v);
                            }
                            1 => unsafe {
                                u.as_mut_ptr().write(MaybeUninit::new(v));
                            },
                            _ => {
                                **u = MaybeUninit::new(v);
                            }
                        },
                        Handle::MuP(x) => match method % 2 {
                            0 => {
                                Arc::get_mut(x).expect("unique").write(v);
                            }
                            _ => unsafe {
                                x.as_mut_ptr().write(MaybeUninit::new(v));
                            },
                        },
                        _ => unreachable!(),
                    });
                    if let Some(p) = prev {
                        mark_forgotten(p); // overwritten without a destructor: legal, never destroyed
                    }
                    cx.env.m(|m| {
                        m.allocs[ai].written[0] = true;
                        m.allocs[ai].val = if id == 0 { None } else { Some(id) };
                    });
                    Done(Exp { no_rmw: true, no_alloc: true, ..Exp::default() })
                }
                Kind::UniSlMu | Kind::UniHsMu | Kind::UniFatMu | Kind::SlMu => {
                    if n == 0 || !F::E::can_make(1) {
                        return Skipped;
                    }
                    if k == Kind::SlMu && (cx.par || cx.owners(ai) != 1) {
                        return Skipped;
                    }
                    let i = op.b as usize % n;
                    let was_written = cx.env.m(|m| m.allocs[ai].written[i]);
                    if was_written && F::E::ZST {
                        return Skipped;
                    }
                    let prev = cx.env.m(|m| if m.allocs[ai].written[i] { Some(m.allocs[ai].elems[i]) } else { None });
                    let v = F::E::fresh();
                    let id = v.raw();
                    let slot = cx.slot(g);
                    tracked(|| {
                        let s: &mut [MaybeUninit<F::E>] = match &mut slot.h {
                            Handle::UniSlMu(u) => &mut **u,
                            Handle::UniHsMu(u) => &mut u.slice,
                            Handle::UniFatMu(u) => &mut u.slice,
                            Handle::SlMu(x) => Arc::get_mut(x).expect("unique"),
                            _ => unreachable!(),
                        };
                        if method % 2 == 0 {
                            s[i].write(v);
                        } else {
                            s[i] = MaybeUninit::new(v);
                        }
                    });
                    if let Some(p) = prev {
                        if p != 0 {
                            mark_forgotten(p);
                        }
                    }
                    cx.env.m(|m| {
                        m.allocs[ai].written[i] = true;
                        m.allocs[ai].elems[i] = id;
                    });
                    Done(Exp { no_rmw: true, no_alloc: true, ..Exp::default() })
                }
                _ => Skipped,
            }
        }
        OpCode::AssumeInit => {
            let all = cx.env.m(|m| m.allocs[ai].uninit && m.allocs[ai].written.iter().all(|w| *w));
            if !all {
                return Skipped;
            }
            if matches!(k, Kind::MuP | Kind::SlMu) && (cx.par || cx.owners(ai) != 1) {
                return Skipped;
            }
            if !matches!(k, Kind::UniMuP | Kind::MuP | Kind::UniSlMu | Kind::SlMu | Kind::UniHsMu | Kind::UniFatMu) {
                return Skipped;
            }
            let Slot { h, ai } = cx.take(g);
            // variant: a second, still MaybeUninit-typed owner exists while the handle changes its
            // type (a transient clone, released right afterwards): assume_init "changes the
            // handle's type but not its allocation, contents or count"
            let with_sharer = op.c % 2 == 1 && matches!(k, Kind::MuP | Kind::SlMu);
            let mut shared_exp = None;
            let nh: Handle<F> = tracked(|| unsafe {
                match h {
                    Handle::UniMuP(u) => Handle::UniP(UniqueArc::assume_init(u)),
                    Handle::MuP(x) if with_sharer => {
                        let sharer = x.clone();
                        let a = x.assume_init();
                        let (c, p0, p1) = (Arc::count(&a), a.heap_ptr() as usize, sharer.heap_ptr() as usize);
                        shared_exp = Some((c, p0, p1));
                        drop(sharer);
                        Handle::ArcP(a)
                    }
                    Handle::SlMu(x) if with_sharer => {
                        let sharer = x.clone();
                        let a = x.assume_init();
                        let (c, p0, p1) = (Arc::count(&a), a.heap_ptr() as usize, sharer.heap_ptr() as usize);
                        shared_exp = Some((c, p0, p1));
                        drop(sharer);
                        Handle::Sl(a)
                    }
                    Handle::MuP(x) => Handle::ArcP(x.assume_init()),
                    Handle::UniSlMu(u) => Handle::UniSl(UniqueArc::assume_init_slice(u)),
                    Handle::SlMu(x) => Handle::Sl(x.assume_init()),
                    Handle::UniHsMu(u) => Handle::UniHs(u.assume_init_slice_with_header()),
                    Handle::UniFatMu(u) => Handle::UniFat(u.assume_init_slice_with_header()),
                    _ => unreachable!(),
                }
            });
            cx.env.m(|m| {
                let a = &mut m.allocs[ai];
                a.uninit = false;
                a.zst_body = match a.class {
                    Class::P => {
                        if F::P::ZST && F::P::TRACKED {
                            1
                        } else {
                            0
                        }
                    }
                    _ => {
                        if F::E::ZST && F::E::TRACKED {
                            a.nelems
                        } else {
                            0
                        }
                    }
                };
            });
            probes::hit(P_ASSUME_INIT);
            if let Some((c, p0, p1)) = shared_exp {
                probes::hit(P_ASSUME_INIT_SHARED);
                if p0 != p1 {
                    violation("addr:heap", format!("`{}`: assume_init moved the handle from allocation {:#x} to {:#x}", what, p1, p0));
                }
                if c != 2 {
                    triomphe_verif_rt::count_violation("count-mismatch", format!("`{}`: after assume_init with one other owner alive the count reads {}, 2 owning handles exist", what, c));
                }
            }
            cx.put(g, Slot { h: nh, ai });
            Done(Exp { no_rmw: !with_sharer, no_alloc: true, ..Exp::default() })
        }
        _ => Skipped,
    }
}

//! trisim: deterministic simulation of triomphe under a seeded scheduler with fault injection.
//! See /verif/DESIGN.md. Exit codes: 0 clean, 3 violation found, 2 harness error.

mod context;
mod exec;
mod exec_uniq;
mod family;
mod gen;
mod handle;
mod interp;
mod minimise;
mod model;
mod allocfail;
mod ops;
mod overflow;
mod probes;
mod run;
#[cfg(feature = "cfg_a")]
mod serde_tape;
mod reentrant;
mod shapes;

use ops::*;
use std::collections::HashSet;
use std::io::Write;
use std::sync::Mutex;
use triomphe_verif_rt::ledger::{Ledger, NoTrack};
use triomphe_verif_rt::rng::mix;

#[global_allocator]
static ALLOC: Ledger = Ledger;

pub const CFG_A: bool = cfg!(feature = "cfg_a");

struct Current {
    prog: Option<Program>,
    out_dir: String,
    /// replay text for engines that do not run programs (serde tape)
    alt: Option<(String, String)>,
}
static CUR: Mutex<Current> = Mutex::new(Current { prog: None, out_dir: String::new(), alt: None });

fn set_current(p: &Program) {
    let mut g = CUR.lock().unwrap_or_else(|e| e.into_inner());
    g.prog = Some(p.clone());
}

fn install_hook(out_dir: &str) {
    {
        let mut g = CUR.lock().unwrap_or_else(|e| e.into_inner());
        g.out_dir = out_dir.to_string();
    }
    triomphe_verif_rt::set_violation_hook(Box::new(|class, detail| {
        let _nt = NoTrack::new();
        let g = match CUR.try_lock() {
            Ok(g) => g,
            Err(_) => return,
        };
        if let Some((name, text)) = &g.alt {
            if !g.out_dir.is_empty() {
                let path = format!("{}/viol-{}.replay", g.out_dir, name);
                let t = format!("{}# class: {}\n# detail: {}\n", text, class, detail.replace('\n', " "));
                if std::fs::write(&path, t).is_ok() {
                    println!("REPLAY-FILE\t{}", path);
                }
            }
            return;
        }
        if let Some(p) = &g.prog {
            let mut p = p.clone();
            let ch = triomphe_verif_rt::sim::choices_so_far();
            p.choices = Choices::List(ch);
            p.expect = Some(format!("class={}", class));
            let ops = context::current_ops();
            let mut ctx = String::new();
            for (t, o) in ops.iter().enumerate() {
                if let Some(o) = o {
                    ctx.push_str(&format!(" t{}:`{}`", t, o.text()));
                }
            }
            println!("VIOLATION-CONTEXT\tfamily={}\tcurrent-ops={}", p.family, ctx);
            println!("VIOLATION-FAMILIES\t{}", context::fams_text(context::current_fams()));
            // families of the operation the violating thread itself is executing
            let t = triomphe_verif_rt::sim::tid();
            let own = ops[if t == triomphe_verif_rt::sim::NONE { 0 } else { t.min(3) }].map(|o| context::fam_mask(o.code.families())).unwrap_or(0);
            println!("VIOLATION-OPFAMS\t{}", context::fams_text(own));
            if !g.out_dir.is_empty() {
                let path = format!("{}/viol-{}-{}.replay", g.out_dir, p.profile, p.seed);
                let mut text = p.to_text();
                text.push_str(&format!("# class: {}\n# detail: {}\n", class, detail.replace('\n', " ")));
                if std::fs::write(&path, text).is_ok() {
                    println!("REPLAY-FILE\t{}", path);
                }
            }
            let log = triomphe_verif_rt::sim::log_so_far();
            for l in log.iter().rev().take(40).rev() {
                println!("TRACE\t{}", l);
            }
        }
    }));
}

fn arg<'a>(args: &'a [String], name: &str) -> Option<&'a str> {
    args.iter().position(|a| a == name).and_then(|i| args.get(i + 1)).map(|s| s.as_str())
}
fn flag(args: &[String], name: &str) -> bool {
    args.iter().any(|a| a == name)
}

fn jstr(s: &str) -> String {
    let mut o = String::from("\"");
    for c in s.chars() {
        match c {
            '"' => o.push_str("\\\""),
            '\\' => o.push_str("\\\\"),
            '\n' => o.push_str("\\n"),
            c if (c as u32) < 0x20 => o.push_str(&format!("\\u{:04x}", c as u32)),
            c => o.push(c),
        }
    }
    o.push('"');
    o
}

fn main() {
    let args: Vec<String> = std::env::args().collect();
    std::panic::set_hook(Box::new(|info| {
        // injected / specified panics are routine; anything else is printed for diagnosis
        if info.payload().downcast_ref::<shapes::InjectedPanic>().is_some() || info.payload().downcast_ref::<exec::Deliberate>().is_some() {
            return;
        }
        if std::env::var("TRISIM_PANIC_TRACE").is_ok() {
            eprintln!("panic: {}", info);
        }
    }));
    if args.len() < 2 {
        eprintln!("usage: trisim run|exec|gen|minimise|info ...");
        std::process::exit(2);
    }
    match args[1].as_str() {
        "info" => {
            println!("cfg={} families={} ops={} profiles={}", if CFG_A { "A" } else { "B" }, family::NFAMILIES, OpCode::count(), gen::PROFILES.len());
        }
        "gen" => {
            let prof = gen::profile(arg(&args, "--profile").unwrap_or("C01")).expect("profile");
            let seed: u64 = arg(&args, "--seed").and_then(|s| s.parse().ok()).unwrap_or(1);
            let idx: u64 = arg(&args, "--index").and_then(|s| s.parse().ok()).unwrap_or(0);
            let rs: u64 = arg(&args, "--run-seed").and_then(|s| s.parse().ok()).unwrap_or_else(|| mix(seed, idx));
            let p = gen::generate(prof, rs, CFG_A);
            print!("{}", p.to_text());
        }
        "exec" => {
            let path = &args[2];
            let text = std::fs::read_to_string(path).unwrap_or_else(|e| {
                eprintln!("cannot read {}: {}", path, e);
                std::process::exit(2)
            });
            let p = Program::from_text(&text).unwrap_or_else(|e| {
                eprintln!("bad replay file: {}", e);
                std::process::exit(2)
            });
            install_hook(arg(&args, "--out-dir").unwrap_or(""));
            set_current(&p);
            let r = run::run_program(&p, flag(&args, "--verbose"), false);
            if flag(&args, "--verbose") {
                for l in &r.log {
                    println!("TRACE\t{}", l);
                }
            }
            println!("RUN-OK\ttrace={:016x}\tops={}\tskipped={}\tchoices={}", r.stats.trace_hash, r.ops_done, r.ops_skipped, r.stats.choices.len());
        }
        "minimise" => {
            let path = &args[2];
            let out = arg(&args, "--out").unwrap_or("min.replay");
            std::process::exit(minimise::minimise(path, out));
        }
        "index-of" => {
            let seed: u64 = arg(&args, "--seed").and_then(|s| s.parse().ok()).unwrap_or(1);
            let from: u64 = arg(&args, "--from").and_then(|s| s.parse().ok()).unwrap_or(0);
            let to: u64 = arg(&args, "--to").and_then(|s| s.parse().ok()).unwrap_or(0);
            let rs: u64 = arg(&args, "--run-seed").and_then(|s| s.parse().ok()).unwrap_or(0);
            for i in from..to {
                if mix(seed, i) == rs {
                    println!("{}", i);
                    return;
                }
            }
            println!("none");
        }
        "allocfail-ctors" => {
            for e in allocfail::CTORS {
                println!("{}", e);
            }
        }
        "allocfail-child" => {
            let ctor = arg(&args, "--ctor").unwrap_or("arc_new");
            let n: i64 = arg(&args, "--n").and_then(|s| s.parse().ok()).unwrap_or(0);
            std::process::exit(allocfail::child(ctor, n));
        }
        "overflow-entries" => {
            for sh in overflow::SHAPES {
                for e in overflow::ENTRIES {
                    println!("{}{}", e, sh);
                }
            }
        }
        "overflow-child" => {
            let entry = arg(&args, "--entry").unwrap_or("arc_sized");
            let start: usize = arg(&args, "--start").and_then(|s| s.parse().ok()).unwrap_or(1);
            if flag(&args, "--unwinding") {
                overflow::WHILE_UNWINDING.store(true, std::sync::atomic::Ordering::Relaxed);
                // the first (deliberate) panic must not try to print to a possibly broken stderr
                std::panic::set_hook(Box::new(|_| {}));
            }
            std::process::exit(overflow::child(entry, start));
        }
        #[cfg(feature = "cfg_a")]
        "serde" | "serde-replay" => cmd_serde(&args),
        "reentrant" | "reentrant-replay" => cmd_reentrant(&args),
        "run" => cmd_run(&args),
        _ => {
            eprintln!("unknown command");
            std::process::exit(2);
        }
    }
}

fn cmd_run(args: &[String]) {
    let pname = arg(args, "--profile").unwrap_or("C01");
    let prof = gen::profile(pname).unwrap_or_else(|| {
        eprintln!("unknown profile");
        std::process::exit(2)
    });
    let seed: u64 = arg(args, "--seed").and_then(|s| s.parse().ok()).unwrap_or(1);
    let from: u64 = arg(args, "--from").and_then(|s| s.parse().ok()).unwrap_or(0);
    let to: u64 = arg(args, "--to").and_then(|s| s.parse().ok()).unwrap_or(100);
    let budget_ms: u64 = arg(args, "--budget-ms").and_then(|s| s.parse().ok()).unwrap_or(u64::MAX);
    let recheck: u64 = arg(args, "--recheck").and_then(|s| s.parse().ok()).unwrap_or(0);
    let out_dir = arg(args, "--out-dir").unwrap_or("");
    let hashes_path = arg(args, "--hashes");
    let nsamples: usize = arg(args, "--samples").and_then(|s| s.parse().ok()).unwrap_or(2);
    let fault_enum = pname == "C07" || flag(args, "--fault-enum");
    let mut trace_log = arg(args, "--trace-log").map(|p| std::io::BufWriter::new(std::fs::File::create(p).expect("trace log")));
    install_hook(out_dir);
    {
        // learn the width of the counter type from one pass-through count read
        let probe = triomphe::Arc::new(0u8);
        let _ = triomphe::Arc::strong_count(&probe);
    }
    let t0 = std::time::Instant::now();
    let mut runs: u64 = 0;
    let mut scenarios: u64 = 0;
    let mut ops_done: u64 = 0;
    let mut ops_skipped: u64 = 0;
    let mut agg = triomphe_verif_rt::sim::Stats::default();
    let mut par_hashes: HashSet<u64> = HashSet::new();
    let mut prog_hashes: HashSet<u64> = HashSet::new();
    let mut samples: Vec<String> = Vec::new();
    let mut fault_points: u64 = 0;
    let mut fault_fired: u64 = 0;
    let mut family_runs = [0u64; family::NFAMILIES];
    let mut thread_runs = [0u64; 5];
    let mut tracked_blocks: u64 = 0;
    let mut drops: u64 = 0;
    let mut last_index = from;
    let stdout = std::io::stdout();
    let mut one = |p: &Program, agg: &mut triomphe_verif_rt::sim::Stats, par_hashes: &mut HashSet<u64>| -> run::RunResult {
        {
            let mut o = stdout.lock();
            let _ = writeln!(o, "BEGIN\t{}\t{}", p.profile, p.seed);
        }
        set_current(p);
        let r = run::run_program(p, false, false);
        agg.sched_points += r.stats.sched_points;
        agg.sched_choices += r.stats.sched_choices;
        agg.preemptions += r.stats.preemptions;
        agg.atomic_ops += r.stats.atomic_ops;
        agg.rmws += r.stats.rmws;
        agg.loads += r.stats.loads;
        agg.loads_with_choice += r.stats.loads_with_choice;
        agg.stale_reads += r.stats.stale_reads;
        agg.acquire_nonnewest += r.stats.acquire_nonnewest;
        agg.accesses += r.stats.accesses;
        agg.events += r.stats.events;
        agg.mailbox += r.stats.mailbox;
        if p.par.len() > 1 && r.stats.preemptions > 0 {
            par_hashes.insert(r.stats.parallel_hash);
        }
        r
    };
    for i in from..to {
        if t0.elapsed().as_millis() as u64 > budget_ms {
            break;
        }
        last_index = i + 1;
        let rs = mix(seed, i);
        let p = gen::generate(prof, rs, CFG_A);
        scenarios += 1;
        family_runs[p.family] += 1;
        thread_runs[p.par.len().min(4)] += 1;
        let r = one(&p, &mut agg, &mut par_hashes);
        runs += 1;
        ops_done += r.ops_done as u64;
        ops_skipped += r.ops_skipped as u64;
        tracked_blocks += r.tracked_blocks as u64;
        drops += r.drops;
        if r.fault_fired {
            fault_fired += 1;
        }
        if r.ops_done >= 3 {
            prog_hashes.insert(r.stats.trace_hash);
        }
        if let Some(f) = trace_log.as_mut() {
            let _ = writeln!(f, "{}\t{:016x}\t{}\t{}", i, r.stats.trace_hash, r.stats.choices.len(), r.ops_done);
        }
        if samples.len() < nsamples && r.ops_done >= 4 {
            samples.push(p.to_text());
        }
        if recheck > 0 && i % recheck == 0 {
            // determinism: the same seed must give the same trace
            let r2 = one(&p, &mut agg, &mut par_hashes);
            runs += 1;
            if r2.stats.trace_hash != r.stats.trace_hash || r2.stats.choices != r.stats.choices {
                println!("NONDETERMINISM\tprofile={}\tseed={}", p.profile, p.seed);
                triomphe_verif_rt::harness_error("two executions of one seed produced different traces");
            }
        }
        if fault_enum && p.fault.is_empty() {
            // crash-point enumeration: a panic at each k-th invocation of each callback class
            for cb in 0..shapes::NCB {
                let calls = r.cb_calls[cb];
                if calls == 0 {
                    continue;
                }
                for k in 1..=(calls + 1) {
                    let mut q = p.clone();
                    q.fault = vec![(unsafe { std::mem::transmute::<u8, shapes::Cb>(cb as u8) }, k)];
                    let rq = one(&q, &mut agg, &mut par_hashes);
                    runs += 1;
                    fault_points += 1;
                    if rq.fault_fired {
                        fault_fired += 1;
                    }
                    if rq.ops_done >= 3 {
                        prog_hashes.insert(rq.stats.trace_hash);
                    }
                    if samples.len() < nsamples + 2 && rq.fault_fired && samples.len() >= nsamples.min(1) {
                        samples.push(q.to_text());
                    }
                }
            }
        }
    }
    let wall = t0.elapsed().as_secs_f64();
    if let Some(hp) = hashes_path {
        let mut f = std::fs::File::create(hp).expect("hash file");
        for h in &par_hashes {
            let _ = f.write_all(&h.to_le_bytes());
        }
        let mut f2 = std::fs::File::create(format!("{}.prog", hp)).expect("hash file");
        for h in &prog_hashes {
            let _ = f2.write_all(&h.to_le_bytes());
        }
    }
    // ---- stats as one JSON line
    let mut j = String::from("{");
    j.push_str(&format!("\"profile\":{},\"cfg\":{},\"seed\":{},\"from\":{},\"to\":{},", jstr(pname), jstr(if CFG_A { "A" } else { "B" }), seed, from, last_index));
    j.push_str(&format!("\"runs\":{},\"scenarios\":{},\"ops_done\":{},\"ops_skipped\":{},\"wall_s\":{:.3},", runs, scenarios, ops_done, ops_skipped, wall));
    j.push_str(&format!(
        "\"sched_points\":{},\"sched_choices\":{},\"preemptions\":{},\"atomic_ops\":{},\"rmws\":{},\"loads\":{},\"loads_with_choice\":{},\"stale_reads\":{},\"acquire_nonnewest\":{},\"payload_accesses\":{},\"events\":{},\"mailbox_ops\":{},",
        agg.sched_points, agg.sched_choices, agg.preemptions, agg.atomic_ops, agg.rmws, agg.loads, agg.loads_with_choice, agg.stale_reads, agg.acquire_nonnewest, agg.accesses, agg.events, agg.mailbox
    ));
    j.push_str(&format!("\"fault_points\":{},\"fault_fired\":{},\"tracked_blocks\":{},\"destructor_events\":{},", fault_points, fault_fired, tracked_blocks, drops));
    j.push_str(&format!("\"distinct_interleavings\":{},\"distinct_traces\":{},", par_hashes.len(), prog_hashes.len()));
    j.push_str("\"family_runs\":[");
    j.push_str(&family_runs.iter().map(|x| x.to_string()).collect::<Vec<_>>().join(","));
    j.push_str("],\"thread_runs\":[");
    j.push_str(&thread_runs.iter().map(|x| x.to_string()).collect::<Vec<_>>().join(","));
    j.push_str("],\"probes\":{");
    let mut first = true;
    for (i, n) in probes::PROBE_NAMES.iter().enumerate() {
        if !first {
            j.push(',');
        }
        first = false;
        j.push_str(&format!("{}:{}", jstr(n), probes::get(i)));
    }
    j.push_str("},\"ops\":{");
    let mut first = true;
    for i in 0..OpCode::count() {
        let c = probes::OPS_DONE[i].load(std::sync::atomic::Ordering::Relaxed);
        if c > 0 {
            if !first {
                j.push(',');
            }
            first = false;
            j.push_str(&format!("{}:{}", jstr(OpCode::from_index(i).name()), c));
        }
    }
    j.push_str("},\"samples\":[");
    j.push_str(&samples.iter().map(|s| jstr(s)).collect::<Vec<_>>().join(","));
    j.push_str("]}");
    println!("STATS\t{}", j);
}

#[cfg(feature = "cfg_a")]
fn cmd_serde(args: &[String]) {
    let replaying = args[1] == "serde-replay";
    let (seed, from, to, only) = if replaying {
        let text = std::fs::read_to_string(&args[2]).unwrap_or_else(|_| std::process::exit(2));
        let mut seed = 0u64;
        let mut index = 0u64;
        let mut only = None;
        for l in text.lines() {
            let w: Vec<&str> = l.split_whitespace().collect();
            match w.as_slice() {
                ["seed", x] => seed = x.parse().unwrap_or(0),
                ["index", x] => index = x.parse().unwrap_or(0),
                // "de strict" / "de wrong-input" / "all 0": replay the whole case for that value
                ["phase", d, k] => only = k.parse().ok().filter(|_| *d != "all").map(|k| (*d == "ser", k)),
                _ => {}
            }
        }
        (seed, index, index + 1, only)
    } else {
        (
            arg(args, "--seed").and_then(|s| s.parse().ok()).unwrap_or(1),
            arg(args, "--from").and_then(|s| s.parse().ok()).unwrap_or(0),
            arg(args, "--to").and_then(|s| s.parse().ok()).unwrap_or(100),
            None,
        )
    };
    install_hook(arg(args, "--out-dir").unwrap_or(""));
    let t0 = std::time::Instant::now();
    let mut st = serde_tape::SerdeStats::default();
    for i in from..to {
        println!("BEGIN\tserde\t{}", i);
        let ctx = |phase: &str| {
            let _nt = NoTrack::new();
            let mut g = CUR.lock().unwrap_or_else(|e| e.into_inner());
            g.alt = Some((format!("C17-serde-{}-{}", seed, i), format!("trisim-serde v1\nseed {}\nindex {}\nphase {}\n", seed, i, phase)));
        };
        ctx("all 0");
        serde_tape::run_case(seed, i, only, &mut st, &ctx);
    }
    if replaying {
        println!("RUN-OK\tserde");
        return;
    }
    let mut j = String::from("{");
    j.push_str(&format!(
        "\"profile\":\"C17\",\"cfg\":\"A\",\"seed\":{},\"from\":{},\"to\":{},\"runs\":{},\"values\":{},\"ser_fault_points\":{},\"de_fault_points\":{},\"ser_faults_fired\":{},\"de_faults_fired\":{},\"fresh_blocks_checked\":{},\"value_deserializer_cases\":{},\"distinct_tapes\":{},\"wall_s\":{:.3},",
        seed, from, to, st.evaluations, st.values, st.ser_fault_points, st.de_fault_points, st.ser_faults_fired, st.de_faults_fired, st.fresh_blocks_checked, st.value_deserializer_cases, st.distinct.len(), t0.elapsed().as_secs_f64()
    ));
    j.push_str("\"by_type\":[");
    j.push_str(&st.by_type.iter().map(|x| x.to_string()).collect::<Vec<_>>().join(","));
    j.push_str(&format!("],\"wrong_input_cases\":{},\"wrong_input_rejected\":{},\"strict_format_cases\":{},\"de_panic_points\":{},\"unwind_blocks_left\":{},\"entry_points\":[", st.wrong_input_cases, st.wrong_input_rejected, st.strict_cases, st.de_panic_points, st.unwind_blocks_left));
    j.push_str(&st.entry_points.iter().map(|s| jstr(s)).collect::<Vec<_>>().join(","));
    j.push_str("],\"samples\":[");
    j.push_str(&st.samples.iter().map(|s| jstr(s)).collect::<Vec<_>>().join(","));
    j.push_str("]}");
    if let Some(hp) = arg(args, "--hashes") {
        let mut f = std::fs::File::create(hp).expect("hash file");
        for h in &st.distinct {
            let _ = f.write_all(&h.to_le_bytes());
        }
    }
    println!("STATS\t{}", j);
}

/// Re-entrant user code scenarios (sim/src/reentrant.rs): `reentrant --seed S --from A --to B`
/// or `reentrant-replay <file>`.
fn cmd_reentrant(args: &[String]) {
    let replaying = args[1] == "reentrant-replay";
    let (seed, from, to) = if replaying {
        let text = std::fs::read_to_string(&args[2]).unwrap_or_else(|_| std::process::exit(2));
        let (mut seed, mut index) = (0u64, 0u64);
        for l in text.lines() {
            let w: Vec<&str> = l.split_whitespace().collect();
            match w.as_slice() {
                ["seed", x] => seed = x.parse().unwrap_or(0),
                ["index", x] => index = x.parse().unwrap_or(0),
                _ => {}
            }
        }
        (seed, index, index + 1)
    } else {
        (
            arg(args, "--seed").and_then(|s| s.parse().ok()).unwrap_or(1),
            arg(args, "--from").and_then(|s| s.parse().ok()).unwrap_or(0),
            arg(args, "--to").and_then(|s| s.parse().ok()).unwrap_or(100),
        )
    };
    install_hook(arg(args, "--out-dir").unwrap_or(""));
    let t0 = std::time::Instant::now();
    let mut st = reentrant::ReStats::default();
    let mut tlog = arg(args, "--trace-log").map(|p| std::fs::File::create(p).expect("trace log"));
    for i in from..to {
        if replaying {
            println!("SCENARIO\t{}", reentrant::describe(seed, i));
        }
        {
            let _nt = NoTrack::new();
            let mut g = CUR.lock().unwrap_or_else(|e| e.into_inner());
            g.alt = Some((format!("reentrant-{}-{}", seed, i), format!("trisim-reentrant v1\nseed {}\nindex {}\n# scenario: {}\n", seed, i, reentrant::describe(seed, i))));
        }
        let d = reentrant::run_case(seed, i, &mut st);
        if let Some(f) = tlog.as_mut() {
            let _ = writeln!(f, "{}\t{:016x}", i, d);
        }
    }
    if replaying {
        println!("RUN-OK\treentrant");
        return;
    }
    let list = |x: &[u64]| x.iter().map(|v| v.to_string()).collect::<Vec<_>>().join(",");
    println!(
        "STATS\t{{\"profile\":\"reentrant\",\"seed\":{},\"from\":{},\"to\":{},\"runs\":{},\"by_op\":[{}],\"siblings_released_in_callback\":{},\"by_sibling_kind\":[{}],\"callback_panics\":{},\"destructor_panics\":{},\"became_last_owner_inside_call\":{},\"in_place\":{},\"copied\":{},\"moved_out\":{},\"blocks_left_after_unwinding\":{},\"distinct_shapes\":{},\"wall_s\":{:.3}}}",
        seed, from, to, st.scenarios, list(&st.by_op), st.siblings_released_in_callback, list(&st.by_sibling_kind), st.callback_panics, st.destructor_panics, st.became_last_owner_inside_call, st.in_place, st.copied, st.moved_out, st.blocks_left_after_unwinding, st.distinct.len(), t0.elapsed().as_secs_f64()
    );
    if let Some(hp) = arg(args, "--hashes") {
        let mut f = std::fs::File::create(hp).expect("hash file");
        for h in &st.distinct {
            let _ = f.write_all(&h.to_le_bytes());
        }
    }
}

//! Reach probes: "this condition was actually hit" counters, reported in the evidence.

use crate::ops::OpCode;
use std::sync::atomic::{AtomicU64, Ordering};

macro_rules! probes {
    ($($name:ident = $text:expr;)*) => {
        probes!(@consts 0usize; $($name,)*);
        pub const PROBE_NAMES: &[&str] = &[$($text,)*];
    };
    (@consts $n:expr; $head:ident, $($rest:ident,)*) => {
        pub const $head: usize = $n;
        probes!(@consts $n + 1usize; $($rest,)*);
    };
    (@consts $n:expr;) => { pub const NPROBES: usize = $n; };
}

probes! {
    P_OP_SKIPPED = "op_skipped";
    P_PAR_DESTROY = "destroyed_inside_parallel_section";
    P_DOC_LEAK = "documented_leak_of_half_built_allocation";
    P_DOC_LEAK_ID = "identity_left_in_documented_leak";
    P_PANIC_IN_CB0 = "panic_injected@iter.next";
    P_PANIC_IN_CB1 = "panic_injected@iter.len";
    P_PANIC_IN_CB2 = "panic_injected@iter.size_hint";
    P_PANIC_IN_CB3 = "panic_injected@clone";
    P_PANIC_IN_CB4 = "panic_injected@cmp";
    P_PANIC_IN_CB5 = "panic_injected@hash";
    P_PANIC_IN_CB6 = "panic_injected@fmt";
    P_PANIC_IN_CB7 = "panic_injected@closure";
    P_PANIC_IN_CB8 = "panic_injected@drop";
    P_PANIC_IN_CB9 = "panic_injected@default";
    P_UNIQ_GRANTED = "uniqueness_granted";
    P_UNIQ_DECLINED = "uniqueness_declined";
    P_UNIQ_GRANTED_PAR = "uniqueness_granted_in_parallel_section";
    P_UNIQ_DECLINED_STALE = "uniqueness_declined_although_model_says_unique(stale/in-flight)";
    P_MAKE_MUT_INPLACE = "make_mut_in_place";
    P_MAKE_MUT_CLONED = "make_mut_cloned";
    P_UNWRAP_MOVED = "value_moved_out";
    P_ASSUME_INIT_SHARED = "assume_init_while_another_MaybeUninit_owner_exists";
    P_DE_IN_PLACE_ERR = "deserialize_in_place_rejected_malformed_input";
    P_UNWRAP_KEPT = "unwrap_declined_handle_kept";
    P_LAST_OWNER_THIN = "last_owner_was_ThinArc";
    P_LAST_OWNER_OFFSET = "last_owner_was_OffsetArc";
    P_LAST_OWNER_UNION = "last_owner_was_ArcUnion";
    P_LAST_OWNER_RAW = "last_owner_was_raw_pointer_taken_back";
    P_LAST_OWNER_DYN = "last_owner_was_Arc<dyn>";
    P_LAST_OWNER_UNIQUE = "last_owner_was_UniqueArc";
    P_LAST_OWNER_SWAP = "last_owner_was_inside_ArcSwap";
    P_LIE_OVER = "iterator_over_reported_length";
    P_LIE_UNDER = "iterator_under_reported_length";
    P_LIE_CHANGING = "iterator_length_changed_between_calls";
    P_INTO_THIN_REFUSED = "into_thin_refused_length_mismatch";
    P_ZST_REFUSED = "constructor_refused_zero_sized_elements";
    P_THIN_REPLACE = "with_arc_mut_replaced_the_arc";
    P_THIN_REPLACE_PANIC = "with_arc_mut_replaced_then_panicked";
    P_DEP_WRITE_PANIC = "deprecated_write_on_shared_panicked";
    P_UNINIT_DROPPED_PARTIAL = "uninit_dropped_with_some_slots_written";
    P_UNINIT_DROPPED_EMPTY = "uninit_dropped_with_no_slot_written";
    P_ASSUME_INIT = "assume_init_done";
    P_OVERFLOW_REFUSED = "layout_overflow_refused";
    P_PADDED_TAIL = "allocation_with_padded_tail";
    P_OVERALIGNED = "allocation_with_data_offset_gt_8";
    P_MAIL_SEND = "handle_sent_between_threads";
    P_MAIL_RECV = "handle_received_from_other_thread";
    P_DESTROYER_NOT_CREATOR = "destroyer_thread_differs_from_creator";
    P_RUN_MULTI = "run_with_2plus_threads";
    P_RUN_FAULT_ARMED = "run_with_callback_fault_armed";
    P_RUN_FAULT_FIRED = "run_where_armed_fault_fired";
    P_SRC_CONTAINER_FREED = "source_container_block_freed_by_constructor";
    P_SHARED_CLONE = "clone_through_a_handle_shared_by_reference_between_threads";
    P_DEP_WRITE_PAR = "deprecated_write_decided_inside_parallel_section";
}

pub static PROBES: [AtomicU64; NPROBES] = [const { AtomicU64::new(0) }; NPROBES];
pub static OPS_DONE: [AtomicU64; 128] = [const { AtomicU64::new(0) }; 128];

#[inline]
pub fn hit(p: usize) {
    PROBES[p].fetch_add(1, Ordering::Relaxed);
}
pub fn op_done(c: OpCode) {
    OPS_DONE[c as usize].fetch_add(1, Ordering::Relaxed);
}
pub fn get(p: usize) -> u64 {
    PROBES[p].load(Ordering::Relaxed)
}

//! Executing one program: setup (thread 0) -> parallel section -> post (thread 0) -> teardown
//! (release everything in a chosen order) -> end-of-run accounting.

use crate::family::Family;
use crate::interp::*;
use crate::ops::*;
use crate::probes::{self, *};
use crate::shapes::*;
use std::sync::Mutex;
use triomphe_verif_rt::ledger::{self, NoTrack};
use triomphe_verif_rt::sim::{self, Config, Stats, MAXT};
use triomphe_verif_rt::violation;

#[derive(Clone, Debug, Default)]
pub struct RunResult {
    pub stats: Stats,
    pub ops_done: usize,
    pub ops_skipped: usize,
    pub log: Vec<String>,
    pub fault_fired: bool,
    pub cb_calls: [u32; NCB],
    pub tracked_blocks: usize,
    pub drops: u64,
}

pub fn run_program(p: &Program, verbose: bool, passthrough: bool) -> RunResult {
    crate::with_family!(p.family, run_family, p, verbose, passthrough)
}

/// Compile-time facts of C11/C12 (one pointer wide, null niche). Not simulation: evaluated once
/// per run because it is free; a mismatch is reported like any other violation.
fn static_facts<F: Family>() {
    use std::mem::size_of;
    use triomphe::{Arc, ArcBorrow, ArcUnion, HeaderSlice, OffsetArc, ThinArc, UniqueArc};
    let w = size_of::<usize>();
    let facts: [(&str, usize, usize); 18] = [
        ("Arc<P>", size_of::<Arc<F::P>>(), w),
        ("Option<Arc<P>>", size_of::<Option<Arc<F::P>>>(), w),
        ("Arc<Q>", size_of::<Arc<F::Q>>(), w),
        ("OffsetArc<P>", size_of::<OffsetArc<F::P>>(), w),
        ("Option<OffsetArc<P>>", size_of::<Option<OffsetArc<F::P>>>(), w),
        ("ThinArc<H,E>", size_of::<ThinArc<F::H, F::E>>(), w),
        ("Option<ThinArc<H,E>>", size_of::<Option<ThinArc<F::H, F::E>>>(), w),
        ("ArcBorrow<P>", size_of::<ArcBorrow<'static, F::P>>(), w),
        ("Option<ArcBorrow<P>>", size_of::<Option<ArcBorrow<'static, F::P>>>(), w),
        ("UniqueArc<P>", size_of::<UniqueArc<F::P>>(), w),
        ("Option<UniqueArc<P>>", size_of::<Option<UniqueArc<F::P>>>(), w),
        ("Arc<[E]>", size_of::<Arc<[F::E]>>(), 2 * w),
        ("Option<Arc<[E]>>", size_of::<Option<Arc<[F::E]>>>(), 2 * w),
        ("Arc<dyn Probe>", size_of::<Arc<dyn crate::handle::Probe>>(), 2 * w),
        ("Arc<HeaderSlice<H,[E]>>", size_of::<Arc<HeaderSlice<F::H, [F::E]>>>(), 2 * w),
        ("Arc<str>", size_of::<Arc<str>>(), 2 * w),
        ("ArcUnion<P,Q>", size_of::<ArcUnion<F::P, F::Q>>(), w),
        ("Option<ArcUnion<P,Q>>", size_of::<Option<ArcUnion<F::P, F::Q>>>(), w),
    ];
    for (name, got, want) in facts {
        if got != want {
            violation(
                if name.contains("ArcUnion") { "union-size" } else { "size:handle" },
                format!("size_of::<{}>() is {} bytes, specified {} ({})", name, got, want, F::NAME),
            );
        }
    }
}

fn run_family<F: Family>(p: &Program, verbose: bool, passthrough: bool) -> RunResult {
    let _nt = NoTrack::new();
    static_facts::<F>();
    triomphe_verif_rt::set_defer_counts(p.defer_counts);
    reset_registry();
    crate::context::clear();
    reg(|r| r.faults = p.fault.iter().map(|f| (f.0, f.1, false)).collect());
    if !p.fault.is_empty() {
        probes::hit(P_RUN_FAULT_ARMED);
    }
    let (cseed, replay) = match &p.choices {
        Choices::Seed(s) => (*s, None),
        Choices::List(v) => (0, Some(v.clone())),
    };
    sim::begin_run(Config {
        seed: cseed,
        replay,
        stale_pct: p.stale_pct,
        switch_pct: p.switch_pct,
        pct_depth: p.pct_depth,
        pct_steps: p.pct_steps,
        verbose,
    });
    let env = Env::<F>::new(passthrough);
    let mut slots: Vec<Option<Slot<F>>> = (0..MAXT * NS + NSHARED).map(|_| None).collect();
    let mut done = 0usize;
    let mut skipped = 0usize;
    let mut tally = |r: OpReport| {
        if r.skipped {
            skipped += 1
        } else {
            done += 1
        }
    };
    for op in &p.setup {
        tally(exec_op(&mut slots, &[], 0, &env, false, 0, op, true));
    }
    let n = p.par.len();
    if n == 1 {
        for op in &p.par[0] {
            tally(exec_op(&mut slots, &[], 0, &env, false, 0, op, true));
        }
    } else if n > 1 {
        probes::hit(P_RUN_MULTI);
        let counts: Vec<Mutex<(usize, usize)>> = (0..n).map(|_| Mutex::new((0, 0))).collect();
        {
            let (thr, sh) = slots.split_at_mut(MAXT * NS);
            let sh: &[Option<Slot<F>>] = sh;
            let chunks: Vec<Mutex<&mut [Option<Slot<F>>]>> = thr.chunks_mut(NS).map(Mutex::new).collect();
            let env = &env;
            let counts = &counts;
            sim::run_parallel(n, |t| {
                let _nt = NoTrack::new();
                let mut g = chunks[t].lock().unwrap_or_else(|e| e.into_inner());
                let mut c = (0usize, 0usize);
                for op in &p.par[t] {
                    let r = exec_op(&mut g, sh, t * NS, env, true, t, op, false);
                    if r.skipped {
                        c.1 += 1
                    } else {
                        c.0 += 1
                    }
                }
                *counts[t].lock().unwrap() = c;
            });
        }
        for c in &counts {
            let c = c.lock().unwrap();
            done += c.0;
            skipped += c.1;
        }
        // quiescent point: all threads joined, every invariant holds again
        let q = Op::new(OpCode::Read, 0, 0, 0);
        // owners with no destroyed allocation: every allocation whose model owner count is 0 is gone
        let stale: Vec<u32> = env.m(|m| m.allocs.iter().filter(|a| a.owners == 0 && !a.dead && !a.leaked).map(|a| a.block).collect());
        if !stale.is_empty() {
            note_blocks(&env, &stale);
            violation(
                "leak:not-freed",
                format!("after the parallel section: allocation(s) {:?} have no owner left but were never destroyed", stale),
            );
        }
        check_all(&slots, 0, &env, &q);
    }
    for op in &p.post {
        let r = exec_op(&mut slots, &[], 0, &env, false, 0, op, true);
        if r.skipped {
            skipped += 1
        } else {
            done += 1
        }
    }
    // teardown: drain mailboxes into free slots / release directly, then release all slots in a
    // chosen order with full checking after every release
    loop {
        let item = {
            let mut mail = env.mail.lock().unwrap_or_else(|e| e.into_inner());
            let mut it = None;
            for q in mail.iter_mut() {
                if let Some(x) = q.pop_front() {
                    it = Some(x);
                    break;
                }
            }
            it
        };
        match item {
            None => break,
            Some((s, c)) => {
                sim::acquire_clock(&c);
                // put into a scratch slot vector and drop through the normal op
                let mut scratch: Vec<Option<Slot<F>>> = vec![Some(s)];
                let op = Op::new(OpCode::Drop, 1000, 0, 0);
                exec_op(&mut scratch, &[], 1000, &env, false, 0, &op, false);
                check_all(&slots, 0, &env, &op);
            }
        }
    }
    loop {
        let occ: Vec<usize> = (0..slots.len()).filter(|&i| slots[i].is_some()).collect();
        if occ.is_empty() {
            break;
        }
        let i = occ[sim::choose(occ.len())];
        let op = Op::new(OpCode::Drop, i as u32, 0, 0);
        exec_op(&mut slots, &[], 0, &env, false, 0, &op, true);
        done += 1;
    }
    // ---- end-of-run accounting
    let fin = Op::new(OpCode::Drop, 9999, 0, 0);
    check_global(&env, &fin);
    let (live_ids, zst_live, fault_fired, cb_calls, drops) = reg(|r| {
        let live: Vec<u32> = r.states.iter().enumerate().filter(|(_, s)| **s == IdState::Live).map(|(i, _)| i as u32).collect();
        (live, r.zst_live, r.fault_fired, r.cb_calls, r.drops_total)
    });
    if !live_ids.is_empty() {
        violation(
            "leak:identity",
            format!("at the end of the run, after every handle was released, payload(s) {:?} were never destroyed", &live_ids[..live_ids.len().min(8)]),
        );
    }
    let fz = env.m(|m| m.forgotten_zst);
    if zst_live != fz {
        violation(
            if zst_live > fz { "leak:identity" } else { "double-drop" },
            format!("at the end of the run {} zero-sized payload(s) are still alive, specified: {}", zst_live, fz),
        );
    }
    if fault_fired {
        probes::hit(P_RUN_FAULT_FIRED);
    }
    let leaked_blocks: Vec<u32> = env.m(|m| m.allocs.iter().filter(|a| a.leaked).map(|a| a.block).collect());
    let tracked_blocks = ledger::block_count();
    let rep = ledger::end_run();
    if rep.overflow {
        triomphe_verif_rt::harness_error("ledger table overflow");
    }
    if rep.nleaks != leaked_blocks.len() {
        crate::context::add_fams(0, env.m(|m| m.allocs.iter().filter(|a| !a.leaked).fold(0, |x, a| if rep.leaks[..rep.nleaks.min(16)].contains(&a.block) { x | a.fams } else { x })));
        violation(
            "leak:block",
            format!("at the end of the run {} block(s) are still allocated ({:?}), documented leaks: {:?}", rep.nleaks, &rep.leaks[..rep.nleaks.min(16)], leaked_blocks),
        );
    }
    if rep.nwaf > 0 {
        violation(
            "write-after-free",
            format!("block(s) {:?} were written to after they had been returned to the allocator", &rep.waf[..rep.nwaf.min(16)]),
        );
    }
    if let Some((c, d)) = triomphe_verif_rt::take_deferred() {
        violation(&c, d);
    }
    let (stats, log) = sim::end_run();
    RunResult { stats, ops_done: done, ops_skipped: skipped, log, fault_fired, cb_calls, tracked_blocks, drops }
}

//! Operation codes, programs, and the replay-file text format.

use crate::shapes::{cb_from_name, Cb, CB_NAMES};

macro_rules! opcodes {
    ($($name:ident = $text:expr, $fam:expr;)*) => {
        #[derive(Clone, Copy, Debug, PartialEq, Eq, Hash, PartialOrd, Ord)]
        #[repr(u16)]
        pub enum OpCode { $($name,)* }
        pub const OP_TABLE: &[(OpCode, &str, &str)] = &[ $((OpCode::$name, $text, $fam),)* ];
    };
}

// name = text, property families the op belongs to (used to attribute a minimised failure)
opcodes! {
    // ---- create (a=dst, b=len, c=variant)
    NewP = "new_p", "";
    FromP = "from_p", "C06";
    FromBoxP = "from_box_p", "C06";
    DefaultP = "default_p", "C06";
    NewQ = "new_q", "";
    UniNewP = "uni_new_p", "";
    HsIter = "hs_iter", "C06";
    HsVec = "hs_vec", "C06";
    HsSlice = "hs_slice", "C06";
    SlVec = "sl_vec", "C06";
    SlIter = "sl_iter", "C06";
    UniSlIter = "uni_sl_iter", "C06";
    SlSlice = "sl_slice", "C06";
    StrFrom = "str_from", "C06";
    HStrFrom = "hstr_from", "C06";
    FatIter = "fat_iter", "C06 C10";
    ThinIter = "thin_iter", "C06 C10";
    ThinSlice = "thin_slice", "C06 C10";
    MuNew = "mu_new", "C15";
    UniMuNew = "uni_mu_new", "C15";
    SlMuNew = "sl_mu_new", "C15";
    UniSlMuNew = "uni_sl_mu_new", "C15";
    UniHsMuNew = "uni_hs_mu_new", "C15";
    UniFatMuNew = "uni_fat_mu_new", "C15";
    HugeNew = "huge_new", "C05 C15";
    // ---- clone-style (a=src, b=dst)
    Clone = "clone", "";
    BorrowCloneArc = "borrow_clone_arc", "";
    OffCloneArc = "off_clone_arc", "";
    WithArcClone = "with_arc_clone", "";
    CloneShared = "clone_shared", "";
    ReadShared = "read_shared", "";
    CloneFrom = "clone_from", "";
    // ---- count-neutral conversions (a=slot)
    ToOffset = "to_offset", "C11";
    FromOffset = "from_offset", "C11";
    IntoRaw = "into_raw", "C11";
    FromRaw = "from_raw", "C11";
    FromRawAsDyn = "from_raw_as_dyn", "C11";
    UnsizeDyn = "unsize_dyn", "";
    ToUnion = "to_union", "C12";
    ToUnionCross = "to_union_cross", "C12";
    Erase = "erase", "";
    Unerase = "unerase", "";
    IntoThin = "into_thin", "C10";
    FromThin = "from_thin", "C10";
    ProtFromThin = "prot_from_thin", "C10";
    ProtIntoThin = "prot_into_thin", "C10";
    Shareable = "shareable", "";
    SwapWrap = "swap_wrap", "C11";
    SwapUnwrap = "swap_unwrap", "C11";
    SwapLoadFull = "swap_load_full", "C11";
    RefCntTrip = "refcnt_trip", "C11";
    SwapExchange = "swap_exchange", "C11";
    MoveSlot = "move", "";
    // ---- inspect (a=slot[, b=slot])
    Read = "read", "";
    Counts = "counts", "C04";
    CmpEq = "cmp_eq", "";
    CmpOrd = "cmp_ord", "";
    HashOp = "hash", "";
    FmtOp = "fmt", "";
    PtrEq = "ptr_eq", "";
    WithArcNoop = "with_arc", "";
    // ---- uniqueness-gated
    GetMut = "get_mut", "C03";
    GetUnique = "get_unique", "C03";
    IsUnique = "is_unique", "C03";
    TryUnique = "try_unique", "C03 C09";
    TryUnwrap = "try_unwrap", "C03 C09";
    TryFromUni = "try_from_uni", "C03 C09";
    MakeMut = "make_mut", "C03 C08";
    MakeUnique = "make_unique", "C03 C08";
    UnwrapOrClone = "unwrap_or_clone", "C09";
    IntoInner = "into_inner", "C09";
    DepWrite = "dep_write", "C03 C15";
    DepAsMutSlice = "dep_as_mut_slice", "C03 C15";
    ThinMutGetMut = "thin_mut_get_mut", "C03 C10";
    ThinMutReplace = "thin_mut_replace", "C10 C03";
    ThinMutNoop = "thin_mut_noop", "C10 C03";
    UniWrite = "uni_write", "";
    DeInPlace = "de_in_place", "C03 C17";
    // ---- uninit
    WriteSlot = "write_slot", "C15";
    AssumeInit = "assume_init", "C15";
    // ---- release
    Drop = "drop", "";
    // ---- mailboxes (send: a=slot b=mailbox; recv: a=mailbox b=dst)
    Send = "send", "";
    Recv = "recv", "";
}

impl OpCode {
    pub fn name(self) -> &'static str {
        OP_TABLE[self as usize].1
    }
    pub fn families(self) -> &'static str {
        OP_TABLE[self as usize].2
    }
    pub fn from_name(s: &str) -> Option<OpCode> {
        OP_TABLE.iter().find(|e| e.1 == s).map(|e| e.0)
    }
    pub fn count() -> usize {
        OP_TABLE.len()
    }
    pub fn from_index(i: usize) -> OpCode {
        OP_TABLE[i].0
    }
}

#[derive(Clone, Copy, Debug, PartialEq, Eq, Hash)]
pub struct Op {
    pub code: OpCode,
    pub a: u32,
    pub b: u32,
    pub c: u32,
}
impl Op {
    pub fn new(code: OpCode, a: u32, b: u32, c: u32) -> Op {
        Op { code, a, b, c }
    }
    pub fn text(&self) -> String {
        format!("{} {} {} {}", self.code.name(), self.a, self.b, self.c)
    }
}

#[derive(Clone, Debug, PartialEq, Eq)]
pub enum Choices {
    Seed(u64),
    List(Vec<u32>),
}

#[derive(Clone, Debug)]
pub struct Program {
    pub profile: String,
    pub seed: u64,
    pub family: usize,
    pub stale_pct: u32,
    pub switch_pct: u32,
    pub pct_depth: u32,
    pub pct_steps: u32,
    /// callback panics to inject: (class, k-th invocation of that class in the run)
    pub fault: Vec<(Cb, u32)>,
    pub choices: Choices,
    pub setup: Vec<Op>,
    pub par: Vec<Vec<Op>>,
    pub post: Vec<Op>,
    /// informational: what the run is expected to show when replayed
    pub expect: Option<String>,
    /// consequence probing: count disagreements are remembered, not fatal (see rt::count_violation)
    pub defer_counts: bool,
}

pub const NS: usize = 6; // slots per thread
pub const NMAIL: usize = 2;
/// slots shared (read-only) by all threads of a parallel section: global indices SHARED_BASE..
pub const NSHARED: usize = 4;
pub const SHARED_BASE: usize = 4 * NS;

impl Program {
    pub fn nthreads(&self) -> usize {
        self.par.len().max(1)
    }
    pub fn total_ops(&self) -> usize {
        self.setup.len() + self.par.iter().map(|p| p.len()).sum::<usize>() + self.post.len()
    }
    pub fn to_text(&self) -> String {
        let mut s = String::new();
        s.push_str("trisim-replay v1\n");
        s.push_str(&format!("profile {}\n", self.profile));
        s.push_str(&format!("seed {}\n", self.seed));
        s.push_str(&format!("family {}\n", self.family));
        s.push_str(&format!(
            "sched stale={} switch={} pct={} steps={}\n",
            self.stale_pct, self.switch_pct, self.pct_depth, self.pct_steps
        ));
        if self.fault.is_empty() {
            s.push_str("fault none\n");
        }
        for (cb, k) in &self.fault {
            s.push_str(&format!("fault {} {}\n", CB_NAMES[*cb as usize], k));
        }
        match &self.choices {
            Choices::Seed(x) => s.push_str(&format!("choices seed {}\n", x)),
            Choices::List(v) => {
                s.push_str("choices list");
                for x in v {
                    s.push_str(&format!(" {}", x));
                }
                s.push('\n');
            }
        }
        if let Some(e) = &self.expect {
            s.push_str(&format!("expect {}\n", e));
        }
        if self.defer_counts {
            s.push_str("defer-counts\n");
        }
        s.push_str("setup\n");
        for o in &self.setup {
            s.push_str(&format!("  {}\n", o.text()));
        }
        for (t, p) in self.par.iter().enumerate() {
            s.push_str(&format!("par {}\n", t));
            for o in p {
                s.push_str(&format!("  {}\n", o.text()));
            }
        }
        s.push_str("post\n");
        for o in &self.post {
            s.push_str(&format!("  {}\n", o.text()));
        }
        s.push_str("end\n");
        s
    }

    pub fn from_text(t: &str) -> Result<Program, String> {
        let mut p = Program {
            profile: "replay".into(),
            seed: 0,
            family: 0,
            stale_pct: 0,
            switch_pct: 0,
            pct_depth: 0,
            pct_steps: 60,
            fault: Vec::new(),
            choices: Choices::List(vec![]),
            setup: vec![],
            par: vec![],
            post: vec![],
            expect: None,
            defer_counts: false,
        };
        #[derive(PartialEq)]
        enum Sec {
            Head,
            Setup,
            Par(usize),
            Post,
        }
        let mut sec = Sec::Head;
        for (ln, line) in t.lines().enumerate() {
            let line = line.trim();
            if line.is_empty() || line.starts_with('#') {
                continue;
            }
            let mut w = line.split_whitespace();
            let k = w.next().unwrap();
            let err = |m: &str| format!("line {}: {}", ln + 1, m);
            match k {
                "trisim-replay" => {}
                "profile" => p.profile = w.next().unwrap_or("replay").to_string(),
                "seed" => p.seed = w.next().and_then(|x| x.parse().ok()).ok_or_else(|| err("bad seed"))?,
                "family" => p.family = w.next().and_then(|x| x.parse().ok()).ok_or_else(|| err("bad family"))?,
                "sched" => {
                    for kv in w {
                        let (k, v) = kv.split_once('=').ok_or_else(|| err("bad sched"))?;
                        let v: u32 = v.parse().map_err(|_| err("bad sched value"))?;
                        match k {
                            "stale" => p.stale_pct = v,
                            "switch" => p.switch_pct = v,
                            "pct" => p.pct_depth = v,
                            "steps" => p.pct_steps = v,
                            _ => return Err(err("unknown sched key")),
                        }
                    }
                }
                "fault" => {
                    let c = w.next().ok_or_else(|| err("bad fault"))?;
                    if c == "none" {
                        p.fault.clear();
                    } else {
                        let cb = cb_from_name(c).ok_or_else(|| err("unknown callback class"))?;
                        let k: u32 = w.next().and_then(|x| x.parse().ok()).ok_or_else(|| err("bad fault k"))?;
                        p.fault.push((cb, k));
                    }
                }
                "choices" => match w.next() {
                    Some("seed") => {
                        p.choices = Choices::Seed(w.next().and_then(|x| x.parse().ok()).ok_or_else(|| err("bad choices seed"))?)
                    }
                    Some("list") => {
                        let mut v = vec![];
                        for x in w {
                            v.push(x.parse().map_err(|_| err("bad choice"))?);
                        }
                        p.choices = Choices::List(v);
                    }
                    _ => return Err(err("bad choices")),
                },
                "expect" => p.expect = Some(line["expect".len()..].trim().to_string()),
                "defer-counts" => p.defer_counts = true,
                "setup" => sec = Sec::Setup,
                "par" => {
                    let t: usize = w.next().and_then(|x| x.parse().ok()).ok_or_else(|| err("bad par"))?;
                    while p.par.len() <= t {
                        p.par.push(vec![]);
                    }
                    sec = Sec::Par(t);
                }
                "post" => sec = Sec::Post,
                "end" => break,
                name => {
                    let code = OpCode::from_name(name).ok_or_else(|| err(&format!("unknown op {}", name)))?;
                    let mut args = [0u32; 3];
                    for a in args.iter_mut() {
                        if let Some(x) = w.next() {
                            *a = x.parse().map_err(|_| err("bad op arg"))?;
                        }
                    }
                    let op = Op::new(code, args[0], args[1], args[2]);
                    match sec {
                        Sec::Head => return Err(err("op before section")),
                        Sec::Setup => p.setup.push(op),
                        Sec::Par(t) => p.par[t].push(op),
                        Sec::Post => p.post.push(op),
                    }
                }
            }
        }
        if p.par.len() > 4 {
            return Err("too many threads".into());
        }
        Ok(p)
    }
}

//! What each simulated thread is doing right now (for violation reports).

use crate::ops::Op;
use std::sync::Mutex;

static CUR: Mutex<[Option<Op>; 4]> = Mutex::new([None; 4]);

pub fn set_op(t: usize, op: Op) {
    let mut g = CUR.lock().unwrap_or_else(|e| e.into_inner());
    g[t.min(3)] = Some(op);
}
pub fn current_ops() -> [Option<Op>; 4] {
    match CUR.try_lock() {
        Ok(g) => *g,
        Err(_) => [None; 4],
    }
}
pub fn clear() {
    let mut g = CUR.lock().unwrap_or_else(|e| e.into_inner());
    *g = [None; 4];
}

//! What each simulated thread is doing right now (for violation reports).

use crate::ops::Op;
use std::sync::Mutex;

static CUR: Mutex<[Option<Op>; 4]> = Mutex::new([None; 4]);

pub fn set_op(t: usize, op: Op) {
    let mut g = CUR.lock().unwrap_or_else(|e| e.into_inner());
    g[t.min(3)] = Some(op);
}
pub fn current_ops() -> [Option<Op>; 4] {
    match CUR.try_lock() {
        Ok(g) => *g,
        Err(_) => [None; 4],
    }
}
pub fn clear() {
    let mut g = CUR.lock().unwrap_or_else(|e| e.into_inner());
    *g = [None; 4];
    let mut f = FAMS.lock().unwrap_or_else(|e| e.into_inner());
    *f = [0; 4];
}

/// Property families (bit i = property C(i)) accumulated by the allocations involved in what the
/// simulated threads are doing right now; printed with a violation for attribution.
static FAMS: Mutex<[u32; 4]> = Mutex::new([0; 4]);

pub fn fam_bit(name: &str) -> u32 {
    match name.trim_start_matches('C').parse::<u32>() {
        Ok(n) if n < 32 => 1 << n,
        _ => 0,
    }
}
pub fn fam_mask(families: &str) -> u32 {
    families.split_whitespace().map(fam_bit).fold(0, |a, b| a | b)
}
pub fn set_fams(t: usize, mask: u32) {
    let mut g = FAMS.lock().unwrap_or_else(|e| e.into_inner());
    g[t.min(3)] = mask;
}
pub fn add_fams(t: usize, mask: u32) {
    let mut g = FAMS.lock().unwrap_or_else(|e| e.into_inner());
    g[t.min(3)] |= mask;
}
pub fn current_fams() -> u32 {
    match FAMS.try_lock() {
        Ok(g) => g.iter().fold(0, |a, b| a | b),
        Err(_) => 0,
    }
}
pub fn fams_text(mask: u32) -> String {
    (0..32).filter(|i| mask & (1 << i) != 0).map(|i| format!("C{:02}", i)).collect::<Vec<_>>().join(",")
}

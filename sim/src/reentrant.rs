//! Re-entrant user code: a fault kind of its own. The payload's `Clone` / `PartialEq`, called by
//! the library in the middle of `make_mut`, `make_unique`, `OffsetArc::make_mut`,
//! `unwrap_or_clone` or `==`, *releases other owning handles of the very allocation the library
//! is working on* (what a second thread dropping its handle in that window does, made
//! deterministic), optionally panics afterwards, and the payload's destructor may panic when the
//! library's own handle thereby became the last owner. Small seeded scenarios with their own
//! oracle (identity table + allocation ledger): every handle that survives the call is valid
//! (refers to a live block, reads a live value, reports the model's owner count), every value is
//! destroyed at most once, copy-on-write leaves the other owners' view untouched, and in scenarios
//! without a panic nothing is leaked.

use std::cell::{Cell, RefCell};
use std::panic::{catch_unwind, AssertUnwindSafe};
use triomphe::{Arc, ArcUnion, OffsetArc};
use triomphe_verif_rt::ledger;
use triomphe_verif_rt::rng::{mix, Rng};
use triomphe_verif_rt::violation;

const MAXID: usize = 64;
const UNUSED: u8 = 0;
const LIVE: u8 = 1;
const DROPPED: u8 = 2;

pub struct ReentrantPanic(pub &'static str);

enum Sib {
    A(Arc<RP>),
    O(OffsetArc<RP>),
    U1(ArcUnion<RP, u64>),
    U2(ArcUnion<u64, RP>),
    Raw(*const RP),
}
const SIB_NAMES: [&str; 5] = ["Arc", "OffsetArc", "ArcUnion(first)", "ArcUnion(second)", "raw pointer"];

thread_local! {
    static STATES: RefCell<[u8; MAXID]> = const { RefCell::new([UNUSED; MAXID]) };
    static NEXT: Cell<u32> = const { Cell::new(1) };
    static PARKED: RefCell<[Option<Sib>; 4]> = const { RefCell::new([None, None, None, None]) };
    static CB_PANIC: Cell<bool> = const { Cell::new(false) };
    static ARMED: Cell<u32> = const { Cell::new(0) };
    static CLONES: RefCell<[(u32, u32); 8]> = const { RefCell::new([(0, 0); 8]) };
    static NCLONES: Cell<usize> = const { Cell::new(0) };
    static RELEASED: Cell<usize> = const { Cell::new(0) };
}

/// Identity-tracked payload; `gen` is the field written through `make_mut`.
pub struct RP {
    id: u32,
    gen: u32,
}

fn state(id: u32) -> u8 {
    if (id as usize) < MAXID {
        STATES.with(|s| s.borrow()[id as usize])
    } else {
        0xff
    }
}
impl RP {
    fn fresh() -> RP {
        let id = NEXT.with(|n| n.replace(n.get() + 1));
        if id as usize >= MAXID {
            triomphe_verif_rt::harness_error("reentrant: identity table exhausted");
        }
        STATES.with(|s| s.borrow_mut()[id as usize] = LIVE);
        RP { id, gen: 0 }
    }
    /// validated read
    fn read(&self, what: &str) -> (u32, u32) {
        let id = self.id;
        match state(id) {
            LIVE => (id, self.gen),
            DROPPED => violation("read-freed", format!("{}: read of payload #{} after its destructor ran", what, id)),
            _ => violation("read-freed", format!("{}: read of a payload with garbage identity {:#x} (freed or never-written memory)", what, id)),
        }
    }
}
/// the re-entrant part of a callback: release every parked sibling handle, then maybe panic
fn reenter(which: &'static str) {
    for i in 0..4 {
        let s = PARKED.with(|p| p.borrow_mut()[i].take());
        if let Some(s) = s {
            RELEASED.with(|r| r.set(r.get() + 1));
            release(s);
        }
    }
    if CB_PANIC.with(|c| c.replace(false)) {
        std::panic::panic_any(ReentrantPanic(which));
    }
}
fn release(s: Sib) {
    match s {
        Sib::A(a) => drop(a),
        Sib::O(o) => drop(o),
        Sib::U1(u) => drop(u),
        Sib::U2(u) => drop(u),
        Sib::Raw(p) => drop(unsafe { Arc::from_raw(p) }),
    }
}
impl Clone for RP {
    fn clone(&self) -> RP {
        let (src, gen) = self.read("Clone::clone");
        reenter("clone");
        // the source must still be intact after the siblings went away: the caller's handle owns it
        let (src2, _) = self.read("Clone::clone (after the sibling handles were released)");
        if src2 != src {
            violation("value-mismatch", format!("the value being cloned changed identity from #{} to #{} during Clone::clone", src, src2));
        }
        let mut n = RP::fresh();
        n.gen = gen;
        let k = NCLONES.with(|c| c.replace(c.get() + 1));
        if k < 8 {
            CLONES.with(|c| c.borrow_mut()[k] = (src, n.id));
        }
        n
    }
}
impl PartialEq for RP {
    fn eq(&self, o: &RP) -> bool {
        let a = self.read("PartialEq::eq").0;
        reenter("eq");
        let a2 = self.read("PartialEq::eq (after the sibling handles were released)").0;
        a == a2 && a == o.read("PartialEq::eq rhs").0
    }
}
impl Drop for RP {
    fn drop(&mut self) {
        let id = self.id;
        match state(id) {
            LIVE => STATES.with(|s| s.borrow_mut()[id as usize] = DROPPED),
            DROPPED => violation("double-drop", format!("payload #{} destroyed twice", id)),
            _ => violation("drop-uninit", format!("destructor ran on memory that holds no payload (identity {:#x})", id)),
        }
        if ARMED.with(|a| a.get()) == id && !std::thread::panicking() {
            ARMED.with(|a| a.set(0));
            std::panic::panic_any(ReentrantPanic("drop"));
        }
    }
}

#[derive(Default, Clone, Debug)]
pub struct ReStats {
    pub scenarios: u64,
    pub by_op: [u64; 5],
    pub siblings_released_in_callback: u64,
    pub by_sibling_kind: [u64; 5],
    pub callback_panics: u64,
    pub destructor_panics: u64,
    pub became_last_owner_inside_call: u64,
    pub in_place: u64,
    pub copied: u64,
    pub moved_out: u64,
    pub blocks_left_after_unwinding: u64,
    pub distinct: std::collections::HashSet<u64>,
}
pub const OP_NAMES: [&str; 5] = ["Arc::make_mut", "Arc::make_unique", "OffsetArc::make_mut", "Arc::unwrap_or_clone", "Arc::eq"];

fn tracked<R>(f: impl FnOnce() -> R) -> R {
    let prev = ledger::set_track(true);
    let r = f();
    ledger::set_track(prev);
    r
}
fn block_live(p: usize) -> bool {
    matches!(ledger::lookup(p), Some(b) if b.state == ledger::ST_LIVE)
}
fn sib_count(s: &Sib) -> usize {
    match s {
        Sib::A(a) => Arc::count(a),
        Sib::O(o) => o.with_arc(|a| Arc::count(a)),
        Sib::U1(u) => ArcUnion::strong_count(u),
        Sib::U2(u) => ArcUnion::strong_count(u),
        Sib::Raw(p) => {
            let a = unsafe { Arc::from_raw(*p) };
            let c = Arc::count(&a);
            let _ = Arc::into_raw(a);
            c
        }
    }
}
fn sib_read(s: &Sib, what: &str) -> (u32, u32) {
    match s {
        Sib::A(a) => a.read(what),
        Sib::O(o) => o.read(what),
        Sib::U1(u) => match u.as_first() {
            Some(b) => b.read(what),
            None => violation("union-variant", format!("{}: a union built with from_first does not report the first variant", what)),
        },
        Sib::U2(u) => match u.as_second() {
            Some(b) => b.read(what),
            None => violation("union-variant", format!("{}: a union built with from_second does not report the second variant", what)),
        },
        Sib::Raw(p) => unsafe { &**p }.read(what),
    }
}

/// the handle that went through the call
enum Subject {
    A(Arc<RP>),
    O(OffsetArc<RP>),
    Gone,
}

pub fn describe(seed: u64, index: u64) -> String {
    let mut r = Rng::new(mix(seed, index));
    let op = r.below(5);
    let n = r.below(4);
    let mut s = format!("{} on a handle with {} other owner(s):", OP_NAMES[op], n);
    for _ in 0..n {
        let k = r.below(5);
        let parked = r.pct(60);
        s.push_str(&format!(" {}{}", SIB_NAMES[k], if parked { "[released inside the callback]" } else { "" }));
    }
    let cb_panic = r.pct(25);
    let armed = !cb_panic && r.pct(50);
    s.push_str(&format!("; callback panics afterwards: {}; destructor of the original panics: {}", cb_panic, armed));
    s
}

/// Returns a digest of what happened (scenario shape, outcome, callback and allocator activity) for
/// the determinism self-test.
pub fn run_case(seed: u64, index: u64, st: &mut ReStats) -> u64 {
    // fresh state
    STATES.with(|s| *s.borrow_mut() = [UNUSED; MAXID]);
    NEXT.with(|n| n.set(1));
    NCLONES.with(|c| c.set(0));
    RELEASED.with(|c| c.set(0));
    ARMED.with(|a| a.set(0));
    CB_PANIC.with(|c| c.set(false));
    let sc = mix(seed, index);
    let mut r = Rng::new(sc);
    let op = r.below(5);
    let n = r.below(4);
    st.scenarios += 1;
    st.by_op[op] += 1;
    let what = OP_NAMES[op];

    let subject = tracked(|| Arc::new(RP::fresh()));
    let id0 = 1u32;
    let old_heap = subject.heap_ptr() as usize;
    let mut retained: [Option<Sib>; 4] = [None, None, None, None];
    let mut parked = 0usize;
    let mut shape = (op as u64) << 60;
    for i in 0..n {
        let k = r.below(5);
        let park = r.pct(60);
        shape |= ((k as u64) << 1 | park as u64) << (i * 4);
        let s = tracked(|| match k {
            0 => Sib::A(subject.clone()),
            1 => Sib::O(Arc::into_raw_offset(subject.clone())),
            2 => Sib::U1(ArcUnion::from_first(subject.clone())),
            3 => Sib::U2(ArcUnion::from_second(subject.clone())),
            _ => Sib::Raw(Arc::into_raw(subject.clone())),
        });
        if park {
            PARKED.with(|p| p.borrow_mut()[i] = Some(s));
            parked += 1;
            st.by_sibling_kind[k] += 1;
        } else {
            retained[i] = Some(s);
        }
    }
    let cb_panic = r.pct(25);
    let armed = !cb_panic && r.pct(50);
    shape |= (cb_panic as u64) << 20 | (armed as u64) << 21;
    st.distinct.insert(shape);
    if Arc::count(&subject) != 1 + n {
        violation("count-mismatch", format!("{} owners were created, the count reads {}", 1 + n, Arc::count(&subject)));
    }
    // Arc::eq short-cuts on pointer equality: compare with a different allocation
    let other = if op == 4 { Some(tracked(|| Arc::new(RP::fresh()))) } else { None };
    CB_PANIC.with(|c| c.set(cb_panic));
    if armed {
        ARMED.with(|a| a.set(id0));
    }
    let shared = n >= 1;
    let cb_called = shared || op == 4;
    let released = if cb_called { parked } else { 0 };
    let others_after = n - released;
    let cb_panicked = cb_called && cb_panic;
    // does the handle that entered the call release the old allocation during it?
    let self_releases = op != 4 && shared && !(cb_panicked && op != 3);
    let old_destroyed_in_call = self_releases && others_after == 0;
    let drop_panics = old_destroyed_in_call && armed;
    let expect_panic = cb_panicked || drop_panics;

    // ---- the call
    let mut moved_out: Option<RP> = None;
    let mut eq_result = None;
    let mut written: Option<u32> = None;
    let mut subj = Subject::Gone;
    let res = tracked(|| match op {
        0 | 1 => {
            let mut a = subject;
            let r = catch_unwind(AssertUnwindSafe(|| {
                let m: &mut RP = if op == 0 { Arc::make_mut(&mut a) } else { &mut **Arc::make_unique(&mut a) };
                m.read(what);
                m.gen += 100;
                m.gen
            }));
            subj = Subject::A(a);
            r.map(|g| written = Some(g))
        }
        2 => {
            let mut o = Arc::into_raw_offset(subject);
            let r = catch_unwind(AssertUnwindSafe(|| {
                let m = OffsetArc::make_mut(&mut o);
                m.read(what);
                m.gen += 100;
                m.gen
            }));
            subj = Subject::O(o);
            r.map(|g| written = Some(g))
        }
        3 => catch_unwind(AssertUnwindSafe(|| Arc::unwrap_or_clone(subject))).map(|v| moved_out = Some(v)),
        _ => {
            let r = catch_unwind(AssertUnwindSafe(|| subject == *other.as_ref().unwrap()));
            subj = Subject::A(subject);
            r.map(|b| eq_result = Some(b))
        }
    });
    let panicked = res.is_err();
    if let Err(p) = res {
        let ours = p.downcast_ref::<ReentrantPanic>().map(|x| x.0);
        tracked(|| drop(p));
        if ours.is_none() {
            violation("unexpected-panic", format!("`{}` panicked with something that is not an injected fault", what));
        }
        if !expect_panic {
            violation("unexpected-panic", format!("`{}` propagated a panic from `{}` that the scenario cannot produce", what, ours.unwrap()));
        }
        if ours == Some("drop") {
            st.destructor_panics += 1;
        } else {
            st.callback_panics += 1;
        }
    } else if cb_panicked {
        violation("panic-swallowed", format!("`{}`: the callback panicked but the call returned normally", what));
    }
    CB_PANIC.with(|c| c.set(false));
    let got_released = RELEASED.with(|c| c.get());
    st.siblings_released_in_callback += got_released as u64;
    if got_released != released {
        // the callback was called a different number of times than the specification implies
        let calls = NCLONES.with(|c| c.get());
        if shared && op != 4 && got_released < released {
            violation("cow:not-a-clone", format!("`{}` on a shared handle did not call Clone::clone ({} clone calls)", what, calls));
        }
        violation("verdict:declined-while-unique", format!("`{}` on a sole owner ran the payload's callback ({} sibling handle(s) released inside)", what, got_released));
    }
    if old_destroyed_in_call {
        st.became_last_owner_inside_call += 1;
    }

    // ---- the old allocation
    let old_owners = others_after + if self_releases || op == 3 { 0 } else { 1 };
    //   op 3 consumes its handle in every outcome (moved out, released after the clone, or released by unwinding)
    if old_owners > 0 {
        if state(id0) != LIVE {
            violation("early-drop", format!("`{}`: payload #{} was destroyed although {} owner(s) of its allocation remain", what, id0, old_owners));
        }
        if !block_live(old_heap) {
            violation("unexpected-free", format!("`{}`: the allocation was returned although {} owner(s) remain", what, old_owners));
        }
        for s in retained.iter().flatten() {
            let (id, gen) = sib_read(s, what);
            if id != id0 || gen != 0 {
                violation("cow:write-visible", format!("`{}`: another owner now sees payload #{} gen {} instead of the unmodified #{}", what, id, gen, id0));
            }
            let c = sib_count(s);
            if c != old_owners {
                violation("count-mismatch", format!("`{}`: {} owner(s) of the old allocation remain, a sibling handle reads {}", what, old_owners, c));
            }
        }
    } else if !(op == 3 && !shared) {
        // nobody owns the old allocation any more: its value must have been destroyed (exactly once:
        // the destructor itself reports a second run), unless a panic interfered
        if state(id0) != DROPPED && !panicked {
            violation("leak:identity", format!("`{}`: no owner of payload #{} remains but it was never destroyed", what, id0));
        }
        if block_live(old_heap) && !panicked {
            violation("leak:not-freed", format!("`{}`: no owner of the old allocation remains but it was not returned", what));
        }
    }

    // ---- the handle that went through the call must be valid
    let check_arc = |a: &Arc<RP>| {
        let hp = a.heap_ptr() as usize;
        if !block_live(hp) {
            violation("dangling-handle", format!("`{}`: the handle that survived the call refers to memory that is not a live allocation (the block was returned during the call)", what));
        }
        let (id, gen) = a.read(what);
        let c = Arc::count(a);
        if hp == old_heap {
            if self_releases {
                violation("dangling-handle", format!("`{}`: the handle still refers to the old allocation after giving up its ownership of it", what));
            }
            if id != id0 {
                violation("value-mismatch", format!("`{}`: the old allocation now holds payload #{}", what, id));
            }
            if c != old_owners {
                violation("count-mismatch", format!("`{}`: the handle's allocation has {} owner(s), the count reads {}", what, old_owners, c));
            }
            if shared && written.is_some() {
                violation("verdict:granted-while-shared", format!("`{}` wrote in place (gen {}) although {} other owner(s) existed at the call", what, gen, n));
            }
        } else {
            let is_clone = CLONES.with(|cl| cl.borrow().iter().any(|x| x.0 == id0 && x.1 == id));
            if !is_clone {
                violation("cow:not-a-clone", format!("`{}`: the fresh allocation holds payload #{} which is not a clone of #{}", what, id, id0));
            }
            if c != 1 {
                violation("count-mismatch", format!("`{}`: the fresh copy must be solely owned, count reads {}", what, c));
            }
            if !shared {
                violation("verdict:declined-while-unique", format!("`{}` copied the value although the handle was the only owner", what));
            }
        }
        if let Some(w) = written {
            if gen != w {
                violation("cow:write-lost", format!("`{}`: wrote gen {} through the returned reference, the handle reads {}", what, w, gen));
            }
        }
    };
    match &subj {
        Subject::A(a) => check_arc(a),
        Subject::O(o) => o.with_arc(|a| check_arc(a)),
        Subject::Gone => {}
    }
    if op <= 2 && !panicked {
        if shared {
            st.copied += 1;
        } else {
            st.in_place += 1;
            if NCLONES.with(|c| c.get()) != 0 {
                violation("verdict:declined-while-unique", format!("`{}` cloned the value of a sole owner", what));
            }
        }
    }
    if op == 3 && !panicked {
        let v = moved_out.as_ref().unwrap();
        let (id, _) = v.read(what);
        if shared {
            if !CLONES.with(|cl| cl.borrow().iter().any(|x| x.0 == id0 && x.1 == id)) {
                violation("value-mismatch", format!("`{}` on a shared handle returned payload #{} which is not a clone of #{}", what, id, id0));
            }
        } else {
            st.moved_out += 1;
            if id != id0 {
                violation("value-mismatch", format!("`{}` on a sole owner returned payload #{} instead of #{}", what, id, id0));
            }
            if block_live(old_heap) {
                violation("leak:not-freed", format!("`{}` moved the value out but kept the allocation", what));
            }
        }
    }
    if op == 4 && !panicked && eq_result != Some(false) {
        violation("cmp-differs", format!("`{}` of two different payloads returned {:?}", what, eq_result));
    }

    // ---- teardown: everything goes, destructors behave from now on
    ARMED.with(|a| a.set(0));
    let td = tracked(|| {
        catch_unwind(AssertUnwindSafe(|| {
            drop(moved_out);
            match subj {
                Subject::A(a) => drop(a),
                Subject::O(o) => drop(o),
                Subject::Gone => {}
            }
            drop(other);
            for s in retained.iter_mut() {
                if let Some(s) = s.take() {
                    release(s);
                }
            }
            for i in 0..4 {
                let s = PARKED.with(|p| p.borrow_mut()[i].take());
                if let Some(s) = s {
                    release(s);
                }
            }
        }))
    });
    if td.is_err() {
        violation("unexpected-panic", format!("`{}`: releasing the remaining handles panicked", what));
    }
    let live = STATES.with(|s| s.borrow().iter().filter(|x| **x == LIVE).count());
    let rep = ledger::end_run();
    if rep.nwaf != 0 {
        violation("write-after-free", format!("`{}`: {} returned block(s) were written to afterwards", what, rep.nwaf));
    }
    if panicked {
        st.blocks_left_after_unwinding += rep.nleaks as u64;
    } else if live != 0 || rep.nleaks != 0 {
        violation("leak:block", format!("`{}`: {} payload(s) never destroyed and {} block(s) never returned in a scenario without any panic", what, live, rep.nleaks));
    }
    let mut d = shape;
    for x in [panicked as u64, got_released as u64, NCLONES.with(|c| c.get()) as u64, rep.nleaks as u64, rep.nblocks as u64, live as u64, NEXT.with(|n| n.get()) as u64] {
        d = mix(d, x);
    }
    d
}

//! Shape families: the interpreter is monomorphised once per family.

use crate::handle::Probe;
use crate::shapes::*;
use std::hash::Hash;
use triomphe::{Arc, HeaderSlice, ThinArc, UniqueArc};

pub trait Family: Sized + 'static {
    const NAME: &'static str;
    const E_COPY: bool;
    type P: Shape + Clone + Default + Probe + PartialEq + PartialOrd + Ord + Hash + std::fmt::Debug;
    type Q: Shape + Clone + PartialEq + std::fmt::Debug;
    type H: Shape + Clone + PartialEq + PartialOrd + Ord + Hash + std::fmt::Debug;
    type E: Shape + PartialEq + PartialOrd + Ord + Hash + std::fmt::Debug;
    /// constructors that need `E: Copy` (None when E is not Copy)
    fn hs_from_slice(_h: Self::H, _s: &[Self::E]) -> Option<Arc<HeaderSlice<Self::H, [Self::E]>>> {
        None
    }
    fn sl_from_slice(_s: &[Self::E]) -> Option<Arc<[Self::E]>> {
        None
    }
    fn thin_from_slice(_h: Self::H, _s: &[Self::E]) -> Option<ThinArc<Self::H, Self::E>> {
        None
    }
    /// When P and Q are the same type: the same Arc seen as an Arc<Q> (so that a first-variant
    /// and a second-variant union can refer to one allocation). Err gives the Arc back.
    fn p_as_q(a: Arc<Self::P>) -> Result<Arc<Self::Q>, Arc<Self::P>> {
        Err(a)
    }
    /// serde's `deserialize_in_place` on an `Arc<P>` (configuration A). None = not available.
    fn de_in_place(_place: &mut Arc<Self::P>, _v: u32, _bad: bool) -> Option<Result<(), ()>> {
        None
    }
    /// The same on a `UniqueArc<P>`.
    fn de_in_place_uni(_place: &mut UniqueArc<Self::P>, _v: u32, _bad: bool) -> Option<Result<(), ()>> {
        None
    }
}

/// `bad`: the input is a string where the payload's deserialiser wants a number, so it fails
/// with a type error before any payload exists.
#[cfg(feature = "cfg_a")]
pub fn de_in_place_impl<W: for<'de> serde::Deserialize<'de>>(place: &mut W, v: u32, bad: bool) -> Option<Result<(), ()>> {
    use serde::de::IntoDeserializer;
    if bad {
        let d: serde::de::value::StrDeserializer<serde::de::value::Error> = "not a number".into_deserializer();
        return Some(serde::Deserialize::deserialize_in_place(d, place).map_err(|_| ()));
    }
    let d: serde::de::value::U32Deserializer<serde::de::value::Error> = v.into_deserializer();
    Some(serde::Deserialize::deserialize_in_place(d, place).map_err(|_| ()))
}
#[cfg(not(feature = "cfg_a"))]
pub fn de_in_place_impl<W>(_place: &mut W, _v: u32, _bad: bool) -> Option<Result<(), ()>> {
    None
}

macro_rules! family {
    ($name:ident, $p:ty, $q:ty, $h:ty, $e:ty, same) => {
        pub struct $name;
        impl Family for $name {
            const NAME: &'static str = concat!(stringify!($name), "(P=", stringify!($p), ",Q=", stringify!($q), ",H=", stringify!($h), ",E=", stringify!($e), ")");
            const E_COPY: bool = false;
            type P = $p;
            type Q = $q;
            type H = $h;
            type E = $e;
            fn de_in_place(place: &mut Arc<Self::P>, v: u32, bad: bool) -> Option<Result<(), ()>> {
                $crate::family::de_in_place_impl(place, v, bad)
            }
            fn de_in_place_uni(place: &mut UniqueArc<Self::P>, v: u32, bad: bool) -> Option<Result<(), ()>> {
                $crate::family::de_in_place_impl(place, v, bad)
            }
            fn p_as_q(a: Arc<Self::P>) -> Result<Arc<Self::Q>, Arc<Self::P>> {
                Ok(a)
            }
        }
    };
    ($name:ident, $p:ty, $q:ty, $h:ty, copy $e:ty, same) => {
        pub struct $name;
        impl Family for $name {
            const NAME: &'static str = concat!(stringify!($name), "(P=", stringify!($p), ",Q=", stringify!($q), ",H=", stringify!($h), ",E=", stringify!($e), ":Copy)");
            const E_COPY: bool = true;
            type P = $p;
            type Q = $q;
            type H = $h;
            type E = $e;
            fn de_in_place(place: &mut Arc<Self::P>, v: u32, bad: bool) -> Option<Result<(), ()>> {
                $crate::family::de_in_place_impl(place, v, bad)
            }
            fn de_in_place_uni(place: &mut UniqueArc<Self::P>, v: u32, bad: bool) -> Option<Result<(), ()>> {
                $crate::family::de_in_place_impl(place, v, bad)
            }
            fn hs_from_slice(h: Self::H, s: &[Self::E]) -> Option<Arc<HeaderSlice<Self::H, [Self::E]>>> {
                Some(Arc::from_header_and_slice(h, s))
            }
            fn sl_from_slice(s: &[Self::E]) -> Option<Arc<[Self::E]>> {
                Some(Arc::from(s))
            }
            fn thin_from_slice(h: Self::H, s: &[Self::E]) -> Option<ThinArc<Self::H, Self::E>> {
                Some(ThinArc::from_header_and_slice(h, s))
            }
            fn p_as_q(a: Arc<Self::P>) -> Result<Arc<Self::Q>, Arc<Self::P>> {
                Ok(a)
            }
        }
    };
    ($name:ident, $p:ty, $q:ty, $h:ty, $e:ty) => {
        pub struct $name;
        impl Family for $name {
            const NAME: &'static str = concat!(stringify!($name), "(P=", stringify!($p), ",Q=", stringify!($q), ",H=", stringify!($h), ",E=", stringify!($e), ")");
            const E_COPY: bool = false;
            type P = $p;
            type Q = $q;
            type H = $h;
            type E = $e;
            fn de_in_place(place: &mut Arc<Self::P>, v: u32, bad: bool) -> Option<Result<(), ()>> {
                $crate::family::de_in_place_impl(place, v, bad)
            }
            fn de_in_place_uni(place: &mut UniqueArc<Self::P>, v: u32, bad: bool) -> Option<Result<(), ()>> {
                $crate::family::de_in_place_impl(place, v, bad)
            }
        }
    };
    ($name:ident, $p:ty, $q:ty, $h:ty, copy $e:ty) => {
        pub struct $name;
        impl Family for $name {
            const NAME: &'static str = concat!(stringify!($name), "(P=", stringify!($p), ",Q=", stringify!($q), ",H=", stringify!($h), ",E=", stringify!($e), ":Copy)");
            const E_COPY: bool = true;
            type P = $p;
            type Q = $q;
            type H = $h;
            type E = $e;
            fn de_in_place(place: &mut Arc<Self::P>, v: u32, bad: bool) -> Option<Result<(), ()>> {
                $crate::family::de_in_place_impl(place, v, bad)
            }
            fn de_in_place_uni(place: &mut UniqueArc<Self::P>, v: u32, bad: bool) -> Option<Result<(), ()>> {
                $crate::family::de_in_place_impl(place, v, bad)
            }
            fn hs_from_slice(h: Self::H, s: &[Self::E]) -> Option<Arc<HeaderSlice<Self::H, [Self::E]>>> {
                Some(Arc::from_header_and_slice(h, s))
            }
            fn sl_from_slice(s: &[Self::E]) -> Option<Arc<[Self::E]>> {
                Some(Arc::from(s))
            }
            fn thin_from_slice(h: Self::H, s: &[Self::E]) -> Option<ThinArc<Self::H, Self::E>> {
                Some(ThinArc::from_header_and_slice(h, s))
            }
        }
    };
}

family!(F0, T8A8, T4A4, T4A4, T2A2);
family!(F1, T1A1, T1A1, T1A1, T1A1, same);
family!(F2, T16A16, T8A8, T16A16, T4A4);
family!(F3, T32A32, T2A2, T2A2, T32A32);
family!(F4, T64A64, T64A64, Z0, T8A8, same);
family!(F5, Z0, T8A8, T8A8, Z0);
family!(F6, T24A8, Z0, T24A8, T3A1P);
family!(F7, T4A4, T4A4, T4A4, copy C2A2, same);
family!(F8, T8A4, T12A4, Z0, copy C1A1);
family!(F9, T40A8, T16A16, T8A8, copy C16A16);
family!(F10, T2A1P, T6A2, T1A1, copy C8A8);
family!(F11, T12A4, T24A8, T6A2, T12A4);
// payloads without drop glue (plain data), different layouts for the two union variants
family!(F12, N8A8, N16A16, N4A4, T2A2);
family!(F13, N40A8, N4A4, T4A4, copy C4A4);
family!(F14, N4A4, N4A4, N4A4, N4A4, same);
// zero-sized header with over-aligned elements; over-aligned header with byte elements
family!(F15, T8A8, T2A2, Z0, T16A16);
family!(F16, T2A2, T8A8, T32A32, T1A1);

pub const NFAMILIES: usize = 17;

/// Dispatch a generic function over the family index.
#[macro_export]
macro_rules! with_family {
    ($ix:expr, $f:ident, $($args:expr),*) => {
        match $ix {
            0 => $f::<$crate::family::F0>($($args),*),
            1 => $f::<$crate::family::F1>($($args),*),
            2 => $f::<$crate::family::F2>($($args),*),
            3 => $f::<$crate::family::F3>($($args),*),
            4 => $f::<$crate::family::F4>($($args),*),
            5 => $f::<$crate::family::F5>($($args),*),
            6 => $f::<$crate::family::F6>($($args),*),
            7 => $f::<$crate::family::F7>($($args),*),
            8 => $f::<$crate::family::F8>($($args),*),
            9 => $f::<$crate::family::F9>($($args),*),
            10 => $f::<$crate::family::F10>($($args),*),
            11 => $f::<$crate::family::F11>($($args),*),
            12 => $f::<$crate::family::F12>($($args),*),
            13 => $f::<$crate::family::F13>($($args),*),
            14 => $f::<$crate::family::F14>($($args),*),
            15 => $f::<$crate::family::F15>($($args),*),
            _ => $f::<$crate::family::F16>($($args),*),
        }
    };
}

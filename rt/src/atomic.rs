//! Drop-in for `core::sync::atomic` as used by triomphe. `AtomicUsize` is `repr(transparent)`
//! over the real one (same size, alignment, bit pattern). With no simulation engaged on the
//! calling thread every operation is passed straight through.

pub use core::sync::atomic::Ordering;
pub use core::sync::atomic::{compiler_fence, AtomicBool, AtomicI16, AtomicI8, AtomicPtr, AtomicU16, AtomicU8};
use core::sync::atomic::AtomicUsize as Real;

use crate::sim;

/// Address of the counter most recently operated on in pass-through mode (lets a harness find
/// the counter of a live allocation without knowing triomphe's private layout).
pub static LAST_ADDR: Real = Real::new(0);

#[repr(transparent)]
pub struct AtomicUsize(Real);

impl AtomicUsize {
    #[inline]
    pub const fn new(v: usize) -> AtomicUsize {
        AtomicUsize(Real::new(v))
    }
    #[inline]
    pub fn into_inner(self) -> usize {
        self.0.into_inner()
    }
    #[inline]
    pub fn get_mut(&mut self) -> &mut usize {
        self.0.get_mut()
    }
    #[inline]
    pub fn as_ptr(&self) -> *mut usize {
        self.0.as_ptr()
    }
    #[inline]
    fn note(&self) {
        LAST_ADDR.store(&self.0 as *const _ as usize, Ordering::Relaxed);
        sim::COUNTER_WIDTH.store(8, Ordering::Relaxed);
    }
    #[inline]
    pub fn load(&self, ord: Ordering) -> usize {
        if sim::engaged() {
            sim::COUNTER_WIDTH.store(8, Ordering::Relaxed);
            sim::load(&self.0, ord)
        } else {
            self.note();
            self.0.load(ord)
        }
    }
    #[inline]
    pub fn store(&self, v: usize, ord: Ordering) {
        if sim::engaged() {
            sim::store(&self.0, v, ord)
        } else {
            self.note();
            self.0.store(v, ord)
        }
    }
    #[inline]
    pub fn swap(&self, v: usize, ord: Ordering) -> usize {
        if sim::engaged() {
            sim::rmw(&self.0, ord, ord, |_| Some(v))
        } else {
            self.note();
            self.0.swap(v, ord)
        }
    }
    #[inline]
    pub fn fetch_add(&self, v: usize, ord: Ordering) -> usize {
        if sim::engaged() {
            sim::rmw(&self.0, ord, ord, |o| Some(o.wrapping_add(v)))
        } else {
            self.note();
            self.0.fetch_add(v, ord)
        }
    }
    #[inline]
    pub fn fetch_sub(&self, v: usize, ord: Ordering) -> usize {
        if sim::engaged() {
            sim::rmw(&self.0, ord, ord, |o| Some(o.wrapping_sub(v)))
        } else {
            self.note();
            self.0.fetch_sub(v, ord)
        }
    }
    #[inline]
    pub fn fetch_and(&self, v: usize, ord: Ordering) -> usize {
        if sim::engaged() {
            sim::rmw(&self.0, ord, ord, |o| Some(o & v))
        } else {
            self.note();
            self.0.fetch_and(v, ord)
        }
    }
    #[inline]
    pub fn fetch_or(&self, v: usize, ord: Ordering) -> usize {
        if sim::engaged() {
            sim::rmw(&self.0, ord, ord, |o| Some(o | v))
        } else {
            self.note();
            self.0.fetch_or(v, ord)
        }
    }
    #[inline]
    pub fn fetch_max(&self, v: usize, ord: Ordering) -> usize {
        if sim::engaged() {
            sim::rmw(&self.0, ord, ord, |o| Some(o.max(v)))
        } else {
            self.note();
            self.0.fetch_max(v, ord)
        }
    }
    #[inline]
    pub fn fetch_min(&self, v: usize, ord: Ordering) -> usize {
        if sim::engaged() {
            sim::rmw(&self.0, ord, ord, |o| Some(o.min(v)))
        } else {
            self.note();
            self.0.fetch_min(v, ord)
        }
    }
    #[inline]
    pub fn compare_exchange(
        &self,
        current: usize,
        new: usize,
        success: Ordering,
        failure: Ordering,
    ) -> Result<usize, usize> {
        if sim::engaged() {
            let old = sim::rmw(&self.0, success, failure, |o| if o == current { Some(new) } else { None });
            if old == current {
                Ok(old)
            } else {
                Err(old)
            }
        } else {
            self.note();
            self.0.compare_exchange(current, new, success, failure)
        }
    }
    /// The weak form may fail spuriously (LL/SC targets really do): under simulation the seeded
    /// choice stream makes one attempt in four fail although the value matches, which a retry
    /// loop absorbs and a single-shot use does not.
    #[inline]
    pub fn compare_exchange_weak(
        &self,
        current: usize,
        new: usize,
        success: Ordering,
        failure: Ordering,
    ) -> Result<usize, usize> {
        if sim::engaged() && sim::choose(4) == 0 {
            return Err(self.load(failure));
        }
        self.compare_exchange(current, new, success, failure)
    }
    #[inline]
    pub fn fetch_update<F: FnMut(usize) -> Option<usize>>(
        &self,
        set_order: Ordering,
        fetch_order: Ordering,
        mut f: F,
    ) -> Result<usize, usize> {
        if sim::engaged() {
            let mut res = None;
            let old = sim::rmw(&self.0, set_order, fetch_order, |o| {
                res = f(o);
                res
            });
            if res.is_some() {
                Ok(old)
            } else {
                Err(old)
            }
        } else {
            self.note();
            self.0.fetch_update(set_order, fetch_order, f)
        }
    }
}

impl Default for AtomicUsize {
    fn default() -> Self {
        AtomicUsize::new(0)
    }
}
impl From<usize> for AtomicUsize {
    fn from(v: usize) -> Self {
        AtomicUsize::new(v)
    }
}
impl core::fmt::Debug for AtomicUsize {
    fn fmt(&self, f: &mut core::fmt::Formatter<'_>) -> core::fmt::Result {
        core::fmt::Debug::fmt(&self.0, f)
    }
}

#[inline]
pub fn fence(ord: Ordering) {
    if sim::engaged() {
        sim::fence(ord)
    } else {
        core::sync::atomic::fence(ord)
    }
}


/// Other integer widths a refactor of the counter might choose: same model, same scheduling.
macro_rules! shim_int {
    ($name:ident, $real:ident, $ty:ty, $w:expr) => {
        #[repr(transparent)]
        pub struct $name(core::sync::atomic::$real);
        impl $name {
            #[inline]
            pub const fn new(v: $ty) -> $name {
                $name(core::sync::atomic::$real::new(v))
            }
            #[inline]
            pub fn into_inner(self) -> $ty {
                self.0.into_inner()
            }
            #[inline]
            pub fn get_mut(&mut self) -> &mut $ty {
                self.0.get_mut()
            }
            #[inline]
            fn addr(&self) -> usize {
                &self.0 as *const _ as usize
            }
            #[inline]
            fn pre(&self) {
                sim::COUNTER_WIDTH.store($w, Ordering::Relaxed);
            }
            #[inline]
            pub fn load(&self, ord: Ordering) -> $ty {
                if sim::engaged() {
                    self.pre();
                    sim::load_at(self.addr(), &|| self.0.load(Ordering::Relaxed) as usize, ord) as $ty
                } else {
                    LAST_ADDR.store(self.addr(), Ordering::Relaxed);
                    sim::COUNTER_WIDTH.store($w, Ordering::Relaxed);
                    self.0.load(ord)
                }
            }
            #[inline]
            pub fn store(&self, v: $ty, ord: Ordering) {
                if sim::engaged() {
                    self.pre();
                    sim::store_at(self.addr(), &|| self.0.load(Ordering::Relaxed) as usize, &|x| self.0.store(x as $ty, Ordering::Relaxed), v as usize, ord)
                } else {
                    LAST_ADDR.store(self.addr(), Ordering::Relaxed);
                    self.0.store(v, ord)
                }
            }
            #[inline]
            fn rmw(&self, ord: Ordering, fail: Ordering, f: impl FnOnce($ty) -> Option<$ty>) -> $ty {
                self.pre();
                sim::rmw_at(
                    self.addr(),
                    &|| self.0.load(Ordering::Relaxed) as usize,
                    &|x| self.0.store(x as $ty, Ordering::Relaxed),
                    ord,
                    fail,
                    |o| f(o as $ty).map(|n| n as usize),
                ) as $ty
            }
            #[inline]
            pub fn swap(&self, v: $ty, ord: Ordering) -> $ty {
                if sim::engaged() {
                    self.rmw(ord, ord, |_| Some(v))
                } else {
                    LAST_ADDR.store(self.addr(), Ordering::Relaxed);
                    self.0.swap(v, ord)
                }
            }
            #[inline]
            pub fn fetch_add(&self, v: $ty, ord: Ordering) -> $ty {
                if sim::engaged() {
                    self.rmw(ord, ord, |o| Some(o.wrapping_add(v)))
                } else {
                    LAST_ADDR.store(self.addr(), Ordering::Relaxed);
                    self.0.fetch_add(v, ord)
                }
            }
            #[inline]
            pub fn fetch_sub(&self, v: $ty, ord: Ordering) -> $ty {
                if sim::engaged() {
                    self.rmw(ord, ord, |o| Some(o.wrapping_sub(v)))
                } else {
                    LAST_ADDR.store(self.addr(), Ordering::Relaxed);
                    self.0.fetch_sub(v, ord)
                }
            }
            #[inline]
            pub fn compare_exchange(&self, current: $ty, new: $ty, success: Ordering, failure: Ordering) -> Result<$ty, $ty> {
                if sim::engaged() {
                    let old = self.rmw(success, failure, |o| if o == current { Some(new) } else { None });
                    if old == current {
                        Ok(old)
                    } else {
                        Err(old)
                    }
                } else {
                    LAST_ADDR.store(self.addr(), Ordering::Relaxed);
                    self.0.compare_exchange(current, new, success, failure)
                }
            }
            #[inline]
            pub fn compare_exchange_weak(&self, current: $ty, new: $ty, success: Ordering, failure: Ordering) -> Result<$ty, $ty> {
                if sim::engaged() && sim::choose(4) == 0 {
                    return Err(self.load(failure));
                }
                self.compare_exchange(current, new, success, failure)
            }
            #[inline]
            pub fn fetch_update<F: FnMut($ty) -> Option<$ty>>(&self, set_order: Ordering, fetch_order: Ordering, mut f: F) -> Result<$ty, $ty> {
                if sim::engaged() {
                    let mut res = None;
                    let old = self.rmw(set_order, fetch_order, |o| {
                        res = f(o);
                        res
                    });
                    if res.is_some() {
                        Ok(old)
                    } else {
                        Err(old)
                    }
                } else {
                    LAST_ADDR.store(self.addr(), Ordering::Relaxed);
                    self.0.fetch_update(set_order, fetch_order, f)
                }
            }
        }
        impl core::fmt::Debug for $name {
            fn fmt(&self, f: &mut core::fmt::Formatter<'_>) -> core::fmt::Result {
                core::fmt::Debug::fmt(&self.0, f)
            }
        }
    };
}
shim_int!(AtomicU32, AtomicU32, u32, 4);
shim_int!(AtomicI32, AtomicI32, i32, 4);
shim_int!(AtomicU64, AtomicU64, u64, 8);
shim_int!(AtomicI64, AtomicI64, i64, 8);
shim_int!(AtomicIsize, AtomicIsize, isize, 8);

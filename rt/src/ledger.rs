//! The allocator seam: a `GlobalAlloc` that keeps a ledger of every block requested while the
//! calling thread has tracking switched on (workload code: building inputs, calling triomphe).
//!
//! * alloc: over-allocate by a tail red zone, fill payload with 0xA5, red zone with 0x5A;
//!   optionally fail (return null) at the n-th tracked allocation;
//! * dealloc: unknown interior pointer, second free or a `Layout` different from the requested
//!   one are violations; the red zone is verified; the block is filled with 0xDD and
//!   **quarantined** until the run ends, so a later read of freed memory sees 0xDD and never
//!   faults, and addresses are never reused within a run;
//! * end of run: every quarantined block must still be all-0xDD (write after free), every live
//!   block is reported (leak), everything is really freed.
//!
//! No allocation happens inside the allocator: all bookkeeping is in fixed static tables.

use std::alloc::{GlobalAlloc, Layout, System};
use std::cell::Cell;
use std::sync::atomic::{AtomicBool, AtomicUsize, Ordering};

pub const RZ: usize = 32;
pub const FILL_FRESH: u8 = 0xA5;
pub const FILL_RZ: u8 = 0x5A;
pub const FILL_FREED: u8 = 0xDD;

const CAP: usize = 1 << 13; // blocks per run
const ICAP: usize = CAP * 4; // hash index slots
const EVCAP: usize = 1 << 15; // events per run

pub const ST_LIVE: u8 = 1;
pub const ST_FREED: u8 = 2;

#[derive(Clone, Copy, Debug, PartialEq, Eq)]
pub struct Block {
    pub ptr: usize,
    pub size: usize,
    pub align: usize,
    pub id: u32,
    pub state: u8,
    pub tid: u8,
}

pub const EV_ALLOC: u8 = 1;
pub const EV_DEALLOC: u8 = 2;
pub const EV_FAIL: u8 = 3;

#[derive(Clone, Copy, Debug, PartialEq, Eq)]
pub struct Event {
    pub kind: u8,
    pub tid: u8,
    pub block: u32,
}

const EMPTY_BLOCK: Block = Block { ptr: 0, size: 0, align: 0, id: 0, state: 0, tid: 0 };
const EMPTY_EVENT: Event = Event { kind: 0, tid: 0, block: 0 };

struct State {
    blocks: [Block; CAP],
    nblocks: usize,
    index: [u32; ICAP], // 0 = empty, else block id + 1
    events: [Event; EVCAP],
    nevents: usize,
    fail_countdown: i64, // <0: no failure armed
    overflow: bool,
}

static mut ST: State = State {
    blocks: [EMPTY_BLOCK; CAP],
    nblocks: 0,
    index: [0; ICAP],
    events: [EMPTY_EVENT; EVCAP],
    nevents: 0,
    fail_countdown: -1,
    overflow: false,
};

static LOCK: AtomicBool = AtomicBool::new(false);
/// Pass-through mode (used under Miri): memory is not padded, filled or quarantined and is
/// really freed with the layout the caller passed; the ledger still records and checks.
static PASSTHROUGH: AtomicBool = AtomicBool::new(false);
pub static TOTAL_TRACKED: AtomicUsize = AtomicUsize::new(0);

thread_local! {
    static TRACK: Cell<bool> = const { Cell::new(false) };
}

/// Switch tracking for the calling thread; returns the previous setting.
#[inline]
pub fn set_track(on: bool) -> bool {
    TRACK.with(|t| t.replace(on))
}
#[inline]
pub fn tracking() -> bool {
    TRACK.try_with(|t| t.get()).unwrap_or(false)
}

/// RAII: tracking off while alive.
pub struct NoTrack(bool);
impl NoTrack {
    #[inline]
    pub fn new() -> NoTrack {
        NoTrack(set_track(false))
    }
}
impl Drop for NoTrack {
    #[inline]
    fn drop(&mut self) {
        set_track(self.0);
    }
}
/// RAII: tracking on while alive.
pub struct Track(bool);
impl Track {
    #[inline]
    pub fn new() -> Track {
        Track(set_track(true))
    }
}
impl Drop for Track {
    #[inline]
    fn drop(&mut self) {
        set_track(self.0);
    }
}

struct Guard;
#[inline]
fn lock() -> Guard {
    while LOCK
        .compare_exchange_weak(false, true, Ordering::Acquire, Ordering::Relaxed)
        .is_err()
    {
        std::hint::spin_loop();
    }
    Guard
}
impl Drop for Guard {
    #[inline]
    fn drop(&mut self) {
        LOCK.store(false, Ordering::Release);
    }
}

#[inline]
fn hash(ptr: usize) -> usize {
    ((ptr >> 3).wrapping_mul(0x9E37_79B9_7F4A_7C15usize)) >> (usize::BITS as usize - 15)
}

#[allow(static_mut_refs)]
unsafe fn st() -> &'static mut State {
    &mut *std::ptr::addr_of_mut!(ST)
}

unsafe fn index_find(s: &State, ptr: usize) -> Option<usize> {
    if s.nblocks == 0 {
        return None;
    }
    let mut h = hash(ptr) % ICAP;
    loop {
        let e = s.index[h];
        if e == 0 {
            return None;
        }
        let b = &s.blocks[(e - 1) as usize];
        if b.ptr == ptr {
            return Some((e - 1) as usize);
        }
        h = (h + 1) % ICAP;
    }
}

unsafe fn index_insert(s: &mut State, ptr: usize, id: usize) {
    let mut h = hash(ptr) % ICAP;
    loop {
        if s.index[h] == 0 {
            s.index[h] = id as u32 + 1;
            return;
        }
        h = (h + 1) % ICAP;
    }
}

fn push_event(s: &mut State, kind: u8, block: u32) {
    if s.nevents < EVCAP {
        s.events[s.nevents] = Event { kind, tid: crate::sim::current_tid_u8(), block };
        s.nevents += 1;
    } else {
        s.overflow = true;
    }
}

pub struct Ledger;

unsafe impl GlobalAlloc for Ledger {
    unsafe fn alloc(&self, layout: Layout) -> *mut u8 {
        if !tracking() {
            return System.alloc(layout);
        }
        let pass = PASSTHROUGH.load(Ordering::Relaxed);
        let g = lock();
        let s = st();
        if s.fail_countdown >= 0 {
            if s.fail_countdown == 0 {
                s.fail_countdown = -1;
                push_event(s, EV_FAIL, u32::MAX);
                drop(g);
                return std::ptr::null_mut();
            }
            s.fail_countdown -= 1;
        }
        if s.nblocks >= CAP {
            s.overflow = true;
            drop(g);
            return System.alloc(layout);
        }
        let real = if pass {
            System.alloc(layout)
        } else {
            let real_layout = Layout::from_size_align_unchecked(layout.size() + RZ, layout.align());
            let p = System.alloc(real_layout);
            if !p.is_null() {
                std::ptr::write_bytes(p, FILL_FRESH, layout.size());
                std::ptr::write_bytes(p.add(layout.size()), FILL_RZ, RZ);
            }
            p
        };
        if real.is_null() {
            drop(g);
            return real;
        }
        let id = s.nblocks;
        s.blocks[id] = Block {
            ptr: real as usize,
            size: layout.size(),
            align: layout.align(),
            id: id as u32,
            state: ST_LIVE,
            tid: crate::sim::current_tid_u8(),
        };
        s.nblocks += 1;
        index_insert(s, real as usize, id);
        push_event(s, EV_ALLOC, id as u32);
        TOTAL_TRACKED.fetch_add(1, Ordering::Relaxed);
        drop(g);
        crate::sim::on_alloc(id as u32);
        real
    }

    unsafe fn dealloc(&self, ptr: *mut u8, layout: Layout) {
        let g = lock();
        let s = st();
        match index_find(s, ptr as usize) {
            None => {
                // Rust never requests zero bytes from the allocator, so a zero-size release is
                // the release of something that was never allocated (e.g. a dangling Box<ZST>).
                if tracking() && layout.size() == 0 {
                    drop(g);
                    crate::violation(
                        "free-unallocated",
                        format!("dealloc called for a zero-size layout (align {}) on a pointer the allocator never handed out", layout.align()),
                    );
                }
                // Not a tracked block start. Interior pointer into a tracked block?
                if tracking() {
                    let p = ptr as usize;
                    for i in 0..s.nblocks {
                        let b = s.blocks[i];
                        if p > b.ptr && p < b.ptr + b.size {
                            drop(g);
                            crate::violation(
                                "free-interior",
                                format!(
                                    "dealloc of a pointer {} bytes inside block b{} (size {} align {}), layout given: size {} align {}",
                                    p - b.ptr, b.id, b.size, b.align, layout.size(), layout.align()
                                ),
                            );
                        }
                    }
                }
                drop(g);
                System.dealloc(ptr, layout);
            }
            Some(i) => {
                let b = s.blocks[i];
                if b.state == ST_FREED {
                    drop(g);
                    crate::violation(
                        "double-free",
                        format!("block b{} (size {} align {}) freed a second time", b.id, b.size, b.align),
                    );
                }
                if b.size != layout.size() || b.align != layout.align() {
                    drop(g);
                    crate::violation(
                        "layout-mismatch",
                        format!(
                            "block b{} requested with size {} align {} but freed with size {} align {}",
                            b.id, b.size, b.align, layout.size(), layout.align()
                        ),
                    );
                }
                let pass = PASSTHROUGH.load(Ordering::Relaxed);
                if !pass {
                    let rz = std::slice::from_raw_parts((b.ptr + b.size) as *const u8, RZ);
                    if rz.iter().any(|&x| x != FILL_RZ) {
                        drop(g);
                        crate::violation(
                            "redzone",
                            format!("block b{} (size {}): bytes past the end were overwritten", b.id, b.size),
                        );
                    }
                }
                s.blocks[i].state = ST_FREED;
                push_event(s, EV_DEALLOC, b.id);
                drop(g);
                // Happens-before check of the release of the memory against every earlier access.
                crate::sim::on_dealloc(b.id);
                if pass {
                    System.dealloc(ptr, layout);
                } else {
                    std::ptr::write_bytes(ptr, FILL_FREED, b.size);
                }
            }
        }
    }
}

pub fn set_passthrough(on: bool) {
    PASSTHROUGH.store(on, Ordering::Relaxed);
}

/// Arm an allocation failure: the n-th (0-based) tracked allocation from now returns null.
pub fn arm_failure(n: i64) {
    let _g = lock();
    unsafe { st().fail_countdown = n };
}

pub fn event_count() -> usize {
    let _g = lock();
    unsafe { st().nevents }
}
pub fn event_at(i: usize) -> Event {
    let _g = lock();
    unsafe { st().events[i] }
}
pub fn block_count() -> usize {
    let _g = lock();
    unsafe { st().nblocks }
}
pub fn block(id: u32) -> Block {
    let _g = lock();
    unsafe { st().blocks[id as usize] }
}
/// Block that starts exactly at `ptr`.
pub fn lookup(ptr: usize) -> Option<Block> {
    let _g = lock();
    unsafe {
        let s = st();
        index_find(s, ptr).map(|i| s.blocks[i])
    }
}
/// Block whose requested range contains `ptr` (start inclusive, one-past-end exclusive;
/// a zero-sized tail position `ptr == start+size` is also attributed to the block).
pub fn containing(ptr: usize) -> Option<Block> {
    let _g = lock();
    unsafe {
        let s = st();
        for i in 0..s.nblocks {
            let b = s.blocks[i];
            if ptr >= b.ptr && ptr < b.ptr + b.size.max(1) {
                return Some(b);
            }
        }
        for i in 0..s.nblocks {
            let b = s.blocks[i];
            if ptr == b.ptr + b.size {
                return Some(b);
            }
        }
        None
    }
}

/// Verify red zones of all live blocks. Returns the id of the first damaged block.
pub fn verify_live() -> Option<u32> {
    if PASSTHROUGH.load(Ordering::Relaxed) {
        return None;
    }
    let _g = lock();
    unsafe {
        let s = st();
        for i in 0..s.nblocks {
            let b = s.blocks[i];
            if b.state == ST_LIVE {
                let rz = std::slice::from_raw_parts((b.ptr + b.size) as *const u8, RZ);
                if rz.iter().any(|&x| x != FILL_RZ) {
                    return Some(b.id);
                }
            }
        }
    }
    None
}

#[derive(Default, Debug, Clone)]
pub struct EndReport {
    pub nblocks: usize,
    pub nleaks: usize,
    pub leaks: [u32; 16],
    pub nwaf: usize,
    pub waf: [u32; 16],
    pub overflow: bool,
}

/// Live blocks right now (ids, up to 64).
pub fn live_blocks() -> ([u32; 64], usize) {
    let mut out = [0u32; 64];
    let mut n = 0;
    let _g = lock();
    unsafe {
        let s = st();
        for i in 0..s.nblocks {
            if s.blocks[i].state == ST_LIVE {
                if n < 64 {
                    out[n] = s.blocks[i].id;
                }
                n += 1;
            }
        }
    }
    (out, n.min(64))
}
pub fn live_count() -> usize {
    let _g = lock();
    unsafe {
        let s = st();
        (0..s.nblocks).filter(|&i| s.blocks[i].state == ST_LIVE).count()
    }
}

/// End the run: verify quarantined blocks, really free everything, reset the ledger.
pub fn end_run() -> EndReport {
    let mut r = EndReport::default();
    let pass = PASSTHROUGH.load(Ordering::Relaxed);
    let g = lock();
    unsafe {
        let s = st();
        r.nblocks = s.nblocks;
        r.overflow = s.overflow;
        for i in 0..s.nblocks {
            let b = s.blocks[i];
            if b.state == ST_LIVE {
                if r.nleaks < 16 {
                    r.leaks[r.nleaks] = b.id;
                }
                r.nleaks += 1;
            } else if !pass {
                let bytes = std::slice::from_raw_parts(b.ptr as *const u8, b.size);
                if bytes.iter().any(|&x| x != FILL_FREED) {
                    if r.nwaf < 16 {
                        r.waf[r.nwaf] = b.id;
                    }
                    r.nwaf += 1;
                }
            }
        }
        for i in 0..s.nblocks {
            let b = s.blocks[i];
            if pass {
                if b.state == ST_LIVE {
                    System.dealloc(b.ptr as *mut u8, Layout::from_size_align_unchecked(b.size, b.align));
                }
            } else {
                System.dealloc(b.ptr as *mut u8, Layout::from_size_align_unchecked(b.size + RZ, b.align));
            }
            s.blocks[i] = EMPTY_BLOCK;
        }
        // clear the hash index cheaply
        if s.nblocks > 0 {
            for x in s.index.iter_mut() {
                *x = 0;
            }
        }
        s.nblocks = 0;
        s.nevents = 0;
        s.fail_countdown = -1;
        s.overflow = false;
    }
    drop(g);
    r
}

//! xoshiro256** + splitmix64. The only source of randomness in the simulator.

#[derive(Clone, Debug)]
pub struct Rng {
    s: [u64; 4],
}

pub fn splitmix64(x: &mut u64) -> u64 {
    *x = x.wrapping_add(0x9E37_79B9_7F4A_7C15);
    let mut z = *x;
    z = (z ^ (z >> 30)).wrapping_mul(0xBF58_476D_1CE4_E5B9);
    z = (z ^ (z >> 27)).wrapping_mul(0x94D0_49BB_1331_11EB);
    z ^ (z >> 31)
}

/// Mix a base seed and a run index into a per-run seed.
pub fn mix(seed: u64, index: u64) -> u64 {
    let mut x = seed ^ index.wrapping_mul(0xD6E8_FEB8_6659_FD93);
    let a = splitmix64(&mut x);
    let b = splitmix64(&mut x);
    a ^ b.rotate_left(17)
}

impl Rng {
    pub fn new(seed: u64) -> Rng {
        let mut x = seed;
        let s = [
            splitmix64(&mut x),
            splitmix64(&mut x),
            splitmix64(&mut x),
            splitmix64(&mut x),
        ];
        Rng { s }
    }
    #[inline]
    pub fn next_u64(&mut self) -> u64 {
        let r = self.s[1].wrapping_mul(5).rotate_left(7).wrapping_mul(9);
        let t = self.s[1] << 17;
        self.s[2] ^= self.s[0];
        self.s[3] ^= self.s[1];
        self.s[1] ^= self.s[2];
        self.s[0] ^= self.s[3];
        self.s[2] ^= t;
        self.s[3] = self.s[3].rotate_left(45);
        r
    }
    /// Uniform in 0..n (n > 0).
    #[inline]
    pub fn below(&mut self, n: usize) -> usize {
        debug_assert!(n > 0);
        ((self.next_u64() >> 11) % (n as u64)) as usize
    }
    /// True with probability pct/100.
    #[inline]
    pub fn pct(&mut self, pct: u32) -> bool {
        (self.below(100) as u32) < pct
    }
    pub fn range(&mut self, lo: usize, hi_incl: usize) -> usize {
        lo + self.below(hi_incl - lo + 1)
    }
    pub fn pick<'a, T>(&mut self, xs: &'a [T]) -> &'a T {
        &xs[self.below(xs.len())]
    }
}

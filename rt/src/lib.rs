//! Verification runtime for triomphe: the atomic shim (linked into triomphe under
//! `cfg(triomphe_verif)`), the deterministic scheduler and memory model, the happens-before
//! monitor, the allocator ledger and the PRNG. See /verif/DESIGN.md.

pub mod atomic;
pub mod ledger;
pub mod rng;
pub mod sim;

use std::sync::Mutex;

pub type ViolationHook = Box<dyn Fn(&str, &str) + Send + Sync>;
static HOOK: Mutex<Option<ViolationHook>> = Mutex::new(None);

/// Install the function that is told about a violation (class, detail) before the process exits.
pub fn set_violation_hook(h: ViolationHook) {
    let _nt = ledger::NoTrack::new();
    *HOOK.lock().unwrap_or_else(|e| e.into_inner()) = Some(h);
}

pub const EXIT_VIOLATION: i32 = 3;
pub const EXIT_HARNESS: i32 = 2;

/// Report a violation of an oracle and end the process (exit code 3). The run that found it is
/// reproduced in a fresh process by the driver; nothing is unwound.
pub fn violation(class: &str, detail: String) -> ! {
    let _nt = ledger::NoTrack::new();
    if let Ok(g) = HOOK.try_lock() {
        if let Some(h) = g.as_ref() {
            h(class, &detail);
        }
    }
    println!("VIOLATION-RECORD\t{}\t{}", class, detail.replace('\n', " "));
    std::process::exit(EXIT_VIOLATION);
}

static DEFER_COUNTS: std::sync::atomic::AtomicBool = std::sync::atomic::AtomicBool::new(false);
static DEFERRED: std::sync::Mutex<Option<(String, String)>> = std::sync::Mutex::new(None);

/// Consequence probing: with deferral on, a disagreement between the reference count and the
/// model's owners does not end the run; the first one is remembered and the run goes on, so that
/// what the miscount *leads to* (an unwrap that hands out a shared value, mutable access while
/// shared, an early free) is observed by the oracle of the operation that suffers it. The
/// remembered violation is raised at the end of the run if nothing else fired.
pub fn set_defer_counts(on: bool) {
    DEFER_COUNTS.store(on, std::sync::atomic::Ordering::SeqCst);
    let _nt = ledger::NoTrack::new();
    *DEFERRED.lock().unwrap_or_else(|e| e.into_inner()) = None;
}
pub fn count_violation(class: &str, detail: String) {
    if DEFER_COUNTS.load(std::sync::atomic::Ordering::SeqCst) {
        let _nt = ledger::NoTrack::new();
        let mut g = DEFERRED.lock().unwrap_or_else(|e| e.into_inner());
        if g.is_none() {
            *g = Some((class.to_string(), detail));
        }
        return;
    }
    violation(class, detail)
}
pub fn take_deferred() -> Option<(String, String)> {
    let _nt = ledger::NoTrack::new();
    DEFERRED.lock().unwrap_or_else(|e| e.into_inner()).take()
}

/// A defect of the harness itself (never reported as a property violation).
pub fn harness_error(msg: &str) -> ! {
    let _nt = ledger::NoTrack::new();
    println!("HARNESS-ERROR\t{}", msg);
    eprintln!("HARNESS-ERROR {}", msg);
    std::process::exit(EXIT_HARNESS);
}

//! The simulator core: baton scheduler over real OS threads, the choice stream, vector clocks,
//! the C++11-subset memory model for the shimmed counter, and the happens-before monitor.

use crate::ledger::{self, NoTrack};
use crate::rng::Rng;
use std::cell::Cell;
use std::sync::atomic::{AtomicBool, AtomicUsize, Ordering as O};
use std::sync::Mutex;
use std::thread::Thread;

pub const MAXT: usize = 4;
pub type VC = [u32; MAXT];
pub const NONE: usize = usize::MAX;
const CONTROLLER: usize = 1000;

#[inline]
pub fn vc_join(a: &mut VC, b: &VC) {
    for i in 0..MAXT {
        if b[i] > a[i] {
            a[i] = b[i];
        }
    }
}

thread_local! {
    static TID: Cell<usize> = const { Cell::new(NONE) };
}
#[inline]
pub fn tid() -> usize {
    TID.try_with(|t| t.get()).unwrap_or(NONE)
}
#[inline]
pub fn current_tid_u8() -> u8 {
    let t = tid();
    if t == NONE {
        255
    } else {
        t as u8
    }
}
pub fn set_tid(t: usize) {
    TID.with(|c| c.set(t));
}

static ACTIVE: AtomicBool = AtomicBool::new(false);
static CURRENT: AtomicUsize = AtomicUsize::new(CONTROLLER);

/// True when the calling thread is a simulated thread of an active run.
#[inline]
pub fn engaged() -> bool {
    ACTIVE.load(O::Relaxed) && tid() != NONE
}

#[derive(Clone, Copy, Debug, PartialEq, Eq)]
pub enum Access {
    Create,
    Read,
    Write,
    Drop,
    MoveOut,
    Dealloc,
    Atomic,
}
impl Access {
    fn name(self) -> &'static str {
        match self {
            Access::Create => "create",
            Access::Read => "read",
            Access::Write => "write",
            Access::Drop => "destroy",
            Access::MoveOut => "move-out",
            Access::Dealloc => "dealloc",
            Access::Atomic => "counter-op",
        }
    }
    fn is_write(self) -> bool {
        !matches!(self, Access::Read | Access::Atomic)
    }
}

#[derive(Clone, Copy, Debug, PartialEq, Eq)]
pub enum Space {
    Ident,
    Block,
}

#[derive(Clone, Default)]
struct Obj {
    last_w: Option<(u8, u32, Access)>,
    reads: [(u32, Option<Access>); MAXT],
}

#[derive(Clone)]
struct Store {
    val: usize,
    writer: u8, // 255 = initial / external
    time: u32,  // writer's own clock component at the store (0 = before everything)
    rel: VC,
}

struct Loc {
    addr: usize,
    block: u32,
    freed: bool,
    stores: Vec<Store>,
    /// (thread, thread-time, store index observed or written)
    seen: Vec<(u8, u32, u32)>,
}

#[derive(Clone, Debug)]
pub struct Config {
    pub seed: u64,
    pub replay: Option<Vec<u32>>,
    /// probability (percent) that a load with several legal candidates takes a non-newest one
    pub stale_pct: u32,
    /// uniform scheduler: probability (percent) of switching threads at a scheduling point
    pub switch_pct: u32,
    /// 0 = uniform random; d>=1 = PCT with d-1 priority change points
    pub pct_depth: u32,
    /// PCT: assumed number of scheduling points in the parallel section
    pub pct_steps: u32,
    pub verbose: bool,
}
impl Default for Config {
    fn default() -> Self {
        Config { seed: 0, replay: None, stale_pct: 25, switch_pct: 30, pct_depth: 0, pct_steps: 60, verbose: false }
    }
}

#[derive(Clone, Debug, Default)]
pub struct Stats {
    pub sched_points: u64,
    pub sched_choices: u64,
    pub preemptions: u64,
    pub atomic_ops: u64,
    pub rmws: u64,
    pub loads: u64,
    pub loads_with_choice: u64,
    pub stale_reads: u64,
    pub acquire_nonnewest: u64,
    pub accesses: u64,
    pub events: u64,
    pub mailbox: u64,
    pub trace_hash: u64,
    pub parallel_hash: u64,
    pub choices: Vec<u32>,
}

#[derive(Clone, Debug, Default)]
pub struct OpAtomics {
    /// (block id, net delta of RMWs by this thread during the op)
    pub deltas: Vec<(u32, i64)>,
    pub rmws: u32,
    pub loads: u32,
    /// values returned by loads during the op (block, value, was_newest)
    pub load_vals: Vec<(u32, usize, bool)>,
}

struct Sim {
    cfg: Config,
    rng: Rng,
    replay_pos: usize,
    record: Vec<u32>,
    parallel: bool,
    nthreads: usize,
    clocks: [VC; MAXT],
    fence_rel: [VC; MAXT],
    pend_acq: [VC; MAXT],
    runnable: [bool; MAXT],
    handles: Vec<Option<Thread>>,
    controller: Option<Thread>,
    locs: Vec<Loc>,
    idents: Vec<Obj>,
    blocks: Vec<Obj>,
    stats: Stats,
    opat: [OpAtomics; MAXT],
    // PCT
    prio: [i64; MAXT],
    change_points: Vec<u64>,
    par_step: u64,
    log: Vec<String>,
}

static SIM: Mutex<Option<Sim>> = Mutex::new(None);

fn with<R>(f: impl FnOnce(&mut Sim) -> R) -> R {
    let mut g = SIM.lock().unwrap_or_else(|e| e.into_inner());
    f(g.as_mut().expect("no simulation active"))
}

#[inline]
fn fnv(h: &mut u64, x: u64) {
    let mut v = x;
    for _ in 0..8 {
        *h ^= v & 0xff;
        *h = h.wrapping_mul(0x0000_0100_0000_01B3);
        v >>= 8;
    }
}

impl Sim {
    fn ev(&mut self, kind: u64, a: u64, b: u64, c: u64) {
        self.stats.events += 1;
        let h = &mut self.stats.trace_hash;
        fnv(h, kind);
        fnv(h, a);
        fnv(h, b);
        fnv(h, c);
        if self.parallel {
            let h = &mut self.stats.parallel_hash;
            fnv(h, kind);
            fnv(h, a);
            fnv(h, b);
            fnv(h, c);
        }
    }
    fn logf(&mut self, f: impl FnOnce() -> String) {
        if self.cfg.verbose {
            let s = f();
            self.log.push(s);
        }
    }

    fn choose(&mut self, n: usize, pick: impl FnOnce(&mut Sim) -> usize) -> usize {
        if n <= 1 {
            return 0;
        }
        let v = if let Some(r) = &self.cfg.replay {
            let v = r.get(self.replay_pos).copied().unwrap_or(0) as usize;
            self.replay_pos += 1;
            if v >= n {
                0
            } else {
                v
            }
        } else {
            let v = pick(self);
            debug_assert!(v < n);
            v
        };
        self.record.push(v as u32);
        v
    }

    fn tick(&mut self, t: usize) -> u32 {
        self.clocks[t][t] += 1;
        self.clocks[t][t]
    }

    /// Decide who runs next at a scheduling point of thread `me` (which is runnable unless
    /// `me_done`). Returns NONE if nobody is runnable.
    fn pick_next(&mut self, me: usize, me_done: bool) -> usize {
        let mut cand: [usize; MAXT] = [0; MAXT];
        let mut n = 0;
        if !me_done {
            cand[n] = me;
            n += 1;
        }
        for t in 0..self.nthreads {
            if t != me && self.runnable[t] {
                cand[n] = t;
                n += 1;
            }
        }
        if n == 0 {
            return NONE;
        }
        self.stats.sched_points += 1;
        self.par_step += 1;
        if n == 1 {
            return cand[0];
        }
        self.stats.sched_choices += 1;
        let step = self.par_step;
        let i = self.choose(n, |s| {
            if s.cfg.pct_depth == 0 {
                if me_done {
                    s.rng.below(n)
                } else if s.rng.pct(s.cfg.switch_pct) {
                    1 + s.rng.below(n - 1)
                } else {
                    0
                }
            } else {
                // PCT: at a change point the running thread drops below everyone.
                if !me_done {
                    if let Some(k) = s.change_points.iter().position(|&c| c == step) {
                        s.prio[me] = -(k as i64) - 1;
                    }
                }
                let mut best = 0;
                for j in 1..n {
                    if s.prio[cand[j]] > s.prio[cand[best]] {
                        best = j;
                    }
                }
                best
            }
        });
        if !me_done && i != 0 {
            self.stats.preemptions += 1;
        }
        cand[i]
    }

    fn obj(&mut self, space: Space, id: u32) -> &mut Obj {
        let v = match space {
            Space::Ident => &mut self.idents,
            Space::Block => &mut self.blocks,
        };
        if v.len() <= id as usize {
            v.resize(id as usize + 1, Obj::default());
        }
        &mut v[id as usize]
    }

    /// Record a non-atomic access and check it against the happens-before order.
    fn access(&mut self, t: usize, space: Space, id: u32, kind: Access) -> Result<(), (String, String)> {
        let now = self.tick(t);
        self.stats.accesses += 1;
        self.ev(10 + kind as u64, t as u64, (space as u64) << 32 | id as u64, 0);
        let c = self.clocks[t];
        let o = self.obj(space, id);
        let sp = match space {
            Space::Ident => "payload #",
            Space::Block => "block b",
        };
        if let Some((wt, wtime, wk)) = o.last_w {
            if wt as usize != t && !(wtime <= c[wt as usize]) {
                return Err((
                    format!("race:{}/{}", wk.name(), kind.name()),
                    format!(
                        "{}{}: {} by thread {} is not ordered (happens-before) after {} by thread {}",
                        sp, id, kind.name(), t, wk.name(), wt
                    ),
                ));
            }
        }
        if kind.is_write() {
            for u in 0..MAXT {
                let (rt, rk) = o.reads[u];
                if u != t && rt != 0 && !(rt <= c[u]) {
                    let rk = rk.unwrap_or(Access::Read);
                    return Err((
                        format!("race:{}/{}", rk.name(), kind.name()),
                        format!(
                            "{}{}: {} by thread {} is not ordered (happens-before) after {} by thread {}",
                            sp, id, kind.name(), t, rk.name(), u
                        ),
                    ));
                }
            }
            o.last_w = Some((t as u8, now, kind));
            o.reads = Default::default();
        } else {
            o.reads[t] = (now, Some(kind));
        }
        Ok(())
    }

    fn find_loc(&mut self, addr: usize, cur: usize) -> Result<usize, (String, String)> {
        if let Some(i) = self.locs.iter().position(|l| l.addr == addr) {
            if self.locs[i].freed {
                return Err((
                    "uaf:counter".into(),
                    format!("atomic operation on the counter of block b{} after the block was freed", self.locs[i].block),
                ));
            }
            return Ok(i);
        }
        match ledger::containing(addr) {
            None => Err((
                "bad-atomic-address".into(),
                "atomic operation at an address outside every tracked allocation".into(),
            )),
            Some(b) => {
                if b.state == ledger::ST_FREED {
                    return Err((
                        "uaf:counter".into(),
                        format!("atomic operation inside block b{} (offset {}) after it was freed", b.id, addr - b.ptr),
                    ));
                }
                if addr != b.ptr {
                    return Err((
                        "bad-atomic-address".into(),
                        format!(
                            "atomic operation at offset {} of block b{} (size {}, align {}); the counter lives at offset 0",
                            addr - b.ptr, b.id, b.size, b.align
                        ),
                    ));
                }
                self.locs.push(Loc {
                    addr,
                    block: b.id,
                    freed: false,
                    stores: vec![Store { val: cur, writer: 255, time: 0, rel: [0; MAXT] }],
                    seen: Vec::new(),
                });
                Ok(self.locs.len() - 1)
            }
        }
    }
}

// ------------------------------------------------------------------------------------------
// run control

pub fn begin_run(cfg: Config) {
    let _nt = NoTrack::new();
    let mut g = SIM.lock().unwrap_or_else(|e| e.into_inner());
    let rng = Rng::new(cfg.seed ^ 0x5151_5151_7777_0001);
    *g = Some(Sim {
        cfg,
        rng,
        replay_pos: 0,
        record: Vec::new(),
        parallel: false,
        nthreads: 1,
        clocks: [[0; MAXT]; MAXT],
        fence_rel: [[0; MAXT]; MAXT],
        pend_acq: [[0; MAXT]; MAXT],
        runnable: [false; MAXT],
        handles: Vec::new(),
        controller: None,
        locs: Vec::new(),
        idents: Vec::new(),
        blocks: Vec::new(),
        stats: Stats { trace_hash: 0xcbf2_9ce4_8422_2325, parallel_hash: 0xcbf2_9ce4_8422_2325, ..Stats::default() },
        opat: Default::default(),
        prio: [0; MAXT],
        change_points: Vec::new(),
        par_step: 0,
        log: Vec::new(),
    });
    drop(g);
    set_tid(0);
    CURRENT.store(0, O::SeqCst);
    ACTIVE.store(true, O::SeqCst);
}

pub fn end_run() -> (Stats, Vec<String>) {
    let _nt = NoTrack::new();
    ACTIVE.store(false, O::SeqCst);
    set_tid(NONE);
    let mut g = SIM.lock().unwrap_or_else(|e| e.into_inner());
    let s = g.take().expect("no simulation active");
    let mut st = s.stats;
    st.choices = s.record;
    (st, s.log)
}

pub fn is_active() -> bool {
    ACTIVE.load(O::Relaxed)
}

/// Snapshot of the choices made so far (for the replay file written when a violation is found).
pub fn choices_so_far() -> Vec<u32> {
    let _nt = NoTrack::new();
    match SIM.try_lock() {
        Ok(g) => g.as_ref().map(|s| s.record.clone()).unwrap_or_default(),
        Err(_) => Vec::new(),
    }
}
pub fn log_so_far() -> Vec<String> {
    let _nt = NoTrack::new();
    match SIM.try_lock() {
        Ok(g) => g.as_ref().map(|s| s.log.clone()).unwrap_or_default(),
        Err(_) => Vec::new(),
    }
}

fn wait_for_baton(me: usize) {
    while CURRENT.load(O::Acquire) != me {
        std::thread::park();
    }
}

fn handoff(s: &Sim, next: usize) {
    CURRENT.store(next, O::Release);
    if next == CONTROLLER {
        if let Some(c) = &s.controller {
            c.unpark();
        }
    } else if let Some(Some(h)) = s.handles.get(next) {
        h.unpark();
    }
}

/// Run `n` simulated threads to completion under the scheduler. Called by the controller
/// (which is simulated thread 0 outside parallel sections). Thread t starts with thread 0's
/// clock (spawn edge); afterwards thread 0's clock is the join of all (join edge).
pub fn run_parallel<F: Fn(usize) + Sync>(n: usize, f: F) {
    assert!(n >= 1 && n <= MAXT);
    {
        let _nt = NoTrack::new();
        with(|s| {
            s.nthreads = n;
            s.tick(0);
            let c0 = s.clocks[0];
            for t in 1..n {
                s.clocks[t] = c0;
                s.fence_rel[t] = [0; MAXT];
                s.pend_acq[t] = [0; MAXT];
            }
            for t in 0..n {
                s.runnable[t] = true;
                s.tick(t);
            }
            s.controller = Some(std::thread::current());
            s.handles = vec![None; n];
            s.par_step = 0;
            // PCT set-up (drawn from the PRNG; outcomes are what the choice record stores)
            if s.cfg.pct_depth > 0 && s.cfg.replay.is_none() {
                let mut order: Vec<usize> = (0..n).collect();
                for i in (1..n).rev() {
                    let j = s.rng.below(i + 1);
                    order.swap(i, j);
                }
                for (rank, &t) in order.iter().enumerate() {
                    s.prio[t] = 100 + rank as i64;
                }
                s.change_points.clear();
                for _ in 1..s.cfg.pct_depth {
                    let steps = s.cfg.pct_steps.max(2) as usize;
                    let cp = 1 + s.rng.below(steps) as u64;
                    s.change_points.push(cp);
                }
            }
            s.parallel = true;
            s.ev(1, n as u64, 0, 0);
        });
    }
    set_tid(NONE);
    CURRENT.store(CONTROLLER, O::SeqCst);
    let f = &f;
    std::thread::scope(|sc| {
        let mut hs = Vec::new();
        for t in 0..n {
            let h = std::thread::Builder::new()
                .stack_size(1 << 20)
                .spawn_scoped(sc, move || {
                    set_tid(t);
                    wait_for_baton(t);
                    let r = std::panic::catch_unwind(std::panic::AssertUnwindSafe(|| f(t)));
                    if r.is_err() {
                        crate::harness_error("a simulated thread panicked outside any operation");
                    }
                    finish_thread(t);
                })
                .expect("spawn");
            hs.push(h);
        }
        {
            let _nt = NoTrack::new();
            let first = with(|s| {
                for (t, h) in hs.iter().enumerate() {
                    s.handles[t] = Some(h.thread().clone());
                }
                // first thread to run: a choice like any other
                let k = s.choose(n, |s| {
                    if s.cfg.pct_depth == 0 {
                        s.rng.below(n)
                    } else {
                        (0..n).max_by_key(|&t| s.prio[t]).unwrap()
                    }
                });
                k
            });
            with(|s| handoff(s, first));
        }
        wait_for_baton(CONTROLLER);
    });
    set_tid(0);
    CURRENT.store(0, O::SeqCst);
    let _nt = NoTrack::new();
    with(|s| {
        s.parallel = false;
        for t in 1..n {
            let c = s.clocks[t];
            vc_join(&mut s.clocks[0], &c);
        }
        s.tick(0);
        s.nthreads = 1;
        s.handles.clear();
        s.ev(2, n as u64, 0, 0);
    });
}

fn finish_thread(t: usize) {
    let _nt = NoTrack::new();
    with(|s| {
        s.runnable[t] = false;
        s.tick(t);
        s.ev(3, t as u64, 0, 0);
        let next = s.pick_next(t, true);
        if next == NONE {
            handoff(s, CONTROLLER);
        } else {
            handoff(s, next);
        }
    });
}

/// A scheduling point of the calling simulated thread.
pub fn sched_point() {
    let me = tid();
    if me == NONE || !ACTIVE.load(O::Relaxed) {
        return;
    }
    let _nt = NoTrack::new();
    let next = with(|s| {
        if !s.parallel {
            return me;
        }
        let next = s.pick_next(me, false);
        if next != me {
            s.ev(4, me as u64, next as u64, 0);
            handoff(s, next);
        }
        next
    });
    if next != me {
        wait_for_baton(me);
    }
}

/// Draw a run-time choice 0..n from the single choice stream (uniform). 0 is the simplest.
pub fn choose(n: usize) -> usize {
    if !ACTIVE.load(O::Relaxed) {
        return 0;
    }
    let _nt = NoTrack::new();
    with(|s| s.choose(n, |s| s.rng.below(n)))
}

/// Record a non-atomic access to an identity-tracked payload or a block.
pub fn access(space: Space, id: u32, kind: Access) {
    let t = tid();
    if t == NONE || !ACTIVE.load(O::Relaxed) {
        return;
    }
    let _nt = NoTrack::new();
    let r = with(|s| s.access(t, space, id, kind));
    if let Err((class, detail)) = r {
        crate::violation(&class, detail);
    }
}

pub(crate) fn on_alloc(block: u32) {
    let t = tid();
    if t == NONE || !ACTIVE.load(O::Relaxed) {
        return;
    }
    let _nt = NoTrack::new();
    let r = with(|s| s.access(t, Space::Block, block, Access::Create));
    if let Err((class, detail)) = r {
        crate::violation(&class, detail);
    }
}

pub(crate) fn on_dealloc(block: u32) {
    let t = tid();
    if t == NONE || !ACTIVE.load(O::Relaxed) {
        return;
    }
    let _nt = NoTrack::new();
    let r = with(|s| {
        for l in s.locs.iter_mut() {
            if l.block == block {
                l.freed = true;
            }
        }
        s.access(t, Space::Block, block, Access::Dealloc)
    });
    if let Err((class, detail)) = r {
        crate::violation(&class, detail);
    }
}

/// Message passing between simulated threads: the sender's clock travels with the message.
pub fn release_clock() -> VC {
    let t = tid();
    if t == NONE || !ACTIVE.load(O::Relaxed) {
        return [0; MAXT];
    }
    sched_point();
    let _nt = NoTrack::new();
    with(|s| {
        s.tick(t);
        s.stats.mailbox += 1;
        s.ev(5, t as u64, 0, 0);
        s.clocks[t]
    })
}
pub fn acquire_clock(c: &VC) {
    let t = tid();
    if t == NONE || !ACTIVE.load(O::Relaxed) {
        return;
    }
    let _nt = NoTrack::new();
    with(|s| {
        vc_join(&mut s.clocks[t], c);
        s.tick(t);
        s.stats.mailbox += 1;
        s.ev(6, t as u64, 0, 0);
    })
}

/// Free-form event folded into the trace hash (and the verbose log).
pub fn note(kind: u64, a: u64, b: u64) {
    if !ACTIVE.load(O::Relaxed) {
        return;
    }
    let t = tid();
    let _nt = NoTrack::new();
    with(|s| s.ev(100 + kind, t as u64, a, b));
}
pub fn note_str(f: impl FnOnce() -> String) {
    if !ACTIVE.load(O::Relaxed) {
        return;
    }
    let _nt = NoTrack::new();
    with(|s| {
        if s.cfg.verbose {
            let t = tid();
            let m = f();
            s.log.push(format!("[t{}] {}", if t == NONE { 9 } else { t }, m));
        }
    });
}

pub fn op_begin() {
    let t = tid();
    if t == NONE || !ACTIVE.load(O::Relaxed) {
        return;
    }
    let _nt = NoTrack::new();
    with(|s| {
        let o = &mut s.opat[t];
        o.deltas.clear();
        o.load_vals.clear();
        o.rmws = 0;
        o.loads = 0;
    });
}
pub fn op_end() -> OpAtomics {
    let t = tid();
    if t == NONE || !ACTIVE.load(O::Relaxed) {
        return OpAtomics::default();
    }
    let _nt = NoTrack::new();
    with(|s| s.opat[t].clone())
}

/// Newest value of the counter of the block starting at `block_ptr`, without any memory-model
/// effect (harness-side observation only).
pub fn peek(block_ptr: usize) -> usize {
    let w = COUNTER_WIDTH.load(O::Relaxed);
    unsafe {
        match w {
            4 => (*(block_ptr as *const core::sync::atomic::AtomicU32)).load(O::Relaxed) as usize,
            _ => (*(block_ptr as *const core::sync::atomic::AtomicUsize)).load(O::Relaxed),
        }
    }
}
/// Width in bytes of the counter type triomphe uses (set by the shim on every operation).
pub static COUNTER_WIDTH: AtomicUsize = AtomicUsize::new(8);

pub fn parallel_now() -> bool {
    if !ACTIVE.load(O::Relaxed) {
        return false;
    }
    let _nt = NoTrack::new();
    with(|s| s.parallel)
}

// ------------------------------------------------------------------------------------------
// the memory model

fn is_acq(o: O) -> bool {
    matches!(o, O::Acquire | O::AcqRel | O::SeqCst)
}
fn is_rel(o: O) -> bool {
    matches!(o, O::Release | O::AcqRel | O::SeqCst)
}

/// Read-modify-write through the model. `f` maps the old value to `Some(new)` (store) or
/// `None` (failed CAS: behaves as a load of the newest value with ordering `fail_ord`).
pub fn rmw(
    real: &core::sync::atomic::AtomicUsize,
    ord: O,
    fail_ord: O,
    f: impl FnOnce(usize) -> Option<usize>,
) -> usize {
    rmw_at(real as *const _ as usize, &|| real.load(O::Relaxed), &|v| real.store(v, O::Relaxed), ord, fail_ord, f)
}

/// Width-agnostic form: `get`/`put` access the real memory cell (any integer atomic type).
pub fn rmw_at(
    addr: usize,
    get: &dyn Fn() -> usize,
    put: &dyn Fn(usize),
    ord: O,
    fail_ord: O,
    f: impl FnOnce(usize) -> Option<usize>,
) -> usize {
    sched_point();
    let t = tid();
    let _nt = NoTrack::new();
    let r = with(|s| -> Result<usize, (String, String)> {
        let cur = get();
        let li = s.find_loc(addr, cur)?;
        let now = s.tick(t);
        {
            let l = &mut s.locs[li];
            if l.stores.last().unwrap().val != cur {
                // written behind the shim's back (harness preset): an external store
                l.stores.push(Store { val: cur, writer: 255, time: 0, rel: [0; MAXT] });
            }
        }
        let old = cur;
        let newest = s.locs[li].stores.len() - 1;
        let prev_rel = s.locs[li].stores[newest].rel;
        match f(old) {
            Some(new) => {
                put(new);
                if is_acq(ord) {
                    vc_join(&mut s.clocks[t], &prev_rel);
                } else {
                    vc_join(&mut s.pend_acq[t], &prev_rel);
                }
                let mut rel = prev_rel; // an RMW continues the release sequence
                if is_rel(ord) {
                    let c = s.clocks[t];
                    vc_join(&mut rel, &c);
                } else {
                    let fr = s.fence_rel[t];
                    vc_join(&mut rel, &fr);
                }
                let l = &mut s.locs[li];
                l.stores.push(Store { val: new, writer: t as u8, time: now, rel });
                l.seen.push((t as u8, now, (newest + 1) as u32));
                let block = l.block;
                s.stats.atomic_ops += 1;
                s.stats.rmws += 1;
                let delta = new.wrapping_sub(old) as i64;
                let o = &mut s.opat[t];
                o.rmws += 1;
                match o.deltas.iter_mut().find(|d| d.0 == block) {
                    Some(d) => d.1 = d.1.wrapping_add(delta),
                    None => o.deltas.push((block, delta)),
                }
                s.ev(20, t as u64, block as u64, new as u64);
                s.logf(|| format!("[t{}] rmw b{} {} -> {} ({:?})", t, block, old, new, ord));
                // the counter operation is an access to the block (ordered before its release)
                let c = s.clocks[t];
                let ob = s.obj(Space::Block, block);
                ob.reads[t] = (c[t], Some(Access::Atomic));
            }
            None => {
                if is_acq(fail_ord) {
                    vc_join(&mut s.clocks[t], &prev_rel);
                } else {
                    vc_join(&mut s.pend_acq[t], &prev_rel);
                }
                let l = &mut s.locs[li];
                l.seen.push((t as u8, now, newest as u32));
                let block = l.block;
                s.stats.atomic_ops += 1;
                s.stats.loads += 1;
                s.opat[t].loads += 1;
                s.opat[t].load_vals.push((block, old, true));
                s.ev(21, t as u64, block as u64, old as u64);
                let c = s.clocks[t];
                let ob = s.obj(Space::Block, block);
                ob.reads[t] = (c[t], Some(Access::Atomic));
            }
        }
        Ok(old)
    });
    match r {
        Ok(v) => v,
        Err((class, detail)) => crate::violation(&class, detail),
    }
}

pub fn load(real: &core::sync::atomic::AtomicUsize, ord: O) -> usize {
    load_at(real as *const _ as usize, &|| real.load(O::Relaxed), ord)
}

pub fn load_at(addr: usize, get: &dyn Fn() -> usize, ord: O) -> usize {
    sched_point();
    let t = tid();
    let _nt = NoTrack::new();
    let r = with(|s| -> Result<usize, (String, String)> {
        let cur = get();
        let li = s.find_loc(addr, cur)?;
        let now = s.tick(t);
        {
            let l = &mut s.locs[li];
            if l.stores.last().unwrap().val != cur {
                l.stores.push(Store { val: cur, writer: 255, time: 0, rel: [0; MAXT] });
            }
        }
        let c = s.clocks[t];
        let l = &s.locs[li];
        let newest = l.stores.len() - 1;
        // coherence floor: newest store that happens-before this load, or that any event
        // happening-before this load (including this thread's own) observed or wrote
        let mut floor = 0usize;
        for (i, st) in l.stores.iter().enumerate() {
            if st.writer == 255 {
                floor = floor.max(i); // initial / external stores are visible to everyone
            } else if st.writer as usize == t || st.time <= c[st.writer as usize] {
                floor = floor.max(i);
            }
        }
        for &(u, time, idx) in l.seen.iter() {
            if u as usize == t || time <= c[u as usize] {
                floor = floor.max(idx as usize);
            }
        }
        let ncand = newest - floor + 1;
        let stale_pct = s.cfg.stale_pct;
        if ncand > 1 {
            s.stats.loads_with_choice += 1;
        }
        let back = s.choose(ncand, |s| {
            if s.rng.pct(stale_pct) {
                1 + s.rng.below(ncand - 1)
            } else {
                0
            }
        });
        let idx = newest - back;
        let st = s.locs[li].stores[idx].clone();
        if back != 0 {
            s.stats.stale_reads += 1;
            if is_acq(ord) {
                s.stats.acquire_nonnewest += 1;
            }
        }
        if is_acq(ord) {
            vc_join(&mut s.clocks[t], &st.rel);
        } else {
            vc_join(&mut s.pend_acq[t], &st.rel);
        }
        let l = &mut s.locs[li];
        l.seen.push((t as u8, now, idx as u32));
        let block = l.block;
        s.stats.atomic_ops += 1;
        s.stats.loads += 1;
        s.opat[t].loads += 1;
        s.opat[t].load_vals.push((block, st.val, back == 0));
        s.ev(22, t as u64, block as u64, st.val as u64);
        s.logf(|| format!("[t{}] load b{} = {} ({:?}{})", t, block, st.val, ord, if back != 0 { ", stale" } else { "" }));
        let c = s.clocks[t];
        let ob = s.obj(Space::Block, block);
        ob.reads[t] = (c[t], Some(Access::Atomic));
        Ok(st.val)
    });
    match r {
        Ok(v) => v,
        Err((class, detail)) => crate::violation(&class, detail),
    }
}

pub fn store(real: &core::sync::atomic::AtomicUsize, val: usize, ord: O) {
    store_at(real as *const _ as usize, &|| real.load(O::Relaxed), &|v| real.store(v, O::Relaxed), val, ord)
}

pub fn store_at(addr: usize, get: &dyn Fn() -> usize, put: &dyn Fn(usize), val: usize, ord: O) {
    sched_point();
    let t = tid();
    let _nt = NoTrack::new();
    let r = with(|s| -> Result<(), (String, String)> {
        let cur = get();
        let li = s.find_loc(addr, cur)?;
        let now = s.tick(t);
        put(val);
        // a plain store heads its own release sequence and breaks the previous one
        let rel = if is_rel(ord) { s.clocks[t] } else { s.fence_rel[t] };
        let l = &mut s.locs[li];
        let idx = l.stores.len();
        l.stores.push(Store { val, writer: t as u8, time: now, rel });
        l.seen.push((t as u8, now, idx as u32));
        let block = l.block;
        s.stats.atomic_ops += 1;
        s.ev(23, t as u64, block as u64, val as u64);
        let c = s.clocks[t];
        let ob = s.obj(Space::Block, block);
        ob.reads[t] = (c[t], Some(Access::Atomic));
        Ok(())
    });
    if let Err((class, detail)) = r {
        crate::violation(&class, detail);
    }
}

pub fn fence(ord: O) {
    let t = tid();
    let _nt = NoTrack::new();
    with(|s| {
        s.tick(t);
        if is_acq(ord) {
            let p = s.pend_acq[t];
            vc_join(&mut s.clocks[t], &p);
        }
        if is_rel(ord) {
            s.fence_rel[t] = s.clocks[t];
        }
        s.ev(24, t as u64, 0, 0);
    });
}

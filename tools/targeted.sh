#!/bin/bash
# Re-validation of the checks touched by the last harness changes (results are not evidence; run
# from a snapshot via `vp run`): thorough tier, two more seeds, and the seeded changes filed under them.
cd "$(dirname "$0")/.."
for p in "$@"; do ./check $p thorough 2>&1 | tail -1; echo "exit=$? thorough $p"; done
for s in 21 22; do for p in "$@"; do
  out=$(VERIF_SEED=$s VERIF_EVID=evidence/tmp/ms VERIF_REPLAYS=evidence/tmp/ms-replays ./check $p quick 2>&1); echo "seed=$s $p exit=$? $(echo "$out" | tail -1)"
done; done

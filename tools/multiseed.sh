#!/bin/bash
# Quiet-on-the-unchanged-tree test: every quick check under several VERIF_SEED values
# (results are not evidence; run from a snapshot via `vp run`). usage: multiseed.sh [seed ...]
cd "$(dirname "$0")/.."
seeds="${@:-1 2 3 4 5}"
bad=0
for s in $seeds; do
  for p in C01 C02 C03 C04 C05 C06 C07 C08 C09 C10 C11 C12 C15 C16 C17; do
    out=$(VERIF_SEED=$s VERIF_EVID=evidence/tmp/ms VERIF_REPLAYS=evidence/tmp/ms-replays ./check $p quick 2>&1)
    rc=$?
    echo "seed=$s $p exit=$rc $(echo "$out" | tail -1)"
    if [ $rc -ne 0 ] || echo "$out" | grep -q "^VIOLATION"; then bad=$((bad+1)); echo "$out" | tail -5; fi
  done
done
echo "multiseed: $bad alarm(s)"
exit $bad

#!/usr/bin/env python3
"""Confirm a seeded change independently: in a fresh scratch worktree of /repo, the demonstration
passes on the unchanged tree and fails with the patch, and the repository's own suite still passes
with the patch. usage: verify_seed.py <id> <dir with patch.diff and demo.rs> [--miri]"""
import json, os, subprocess, sys, shutil, time

def run(cmd, cwd, env=None, timeout=1800):
    e = dict(os.environ)
    e["CARGO_NET_OFFLINE"] = "true"
    if env:
        e.update(env)
    t0 = time.time()
    try:
        p = subprocess.run(cmd, cwd=cwd, env=e, stdout=subprocess.PIPE, stderr=subprocess.STDOUT, text=True, timeout=timeout)
        rc, out = p.returncode, p.stdout
    except subprocess.TimeoutExpired as ex:
        rc, out = 124, (ex.stdout or "") + "\nTIMEOUT"
    tail = [l for l in out.splitlines() if l.startswith("test result") or "Undefined Behavior" in l or "FAILED" in l or "panicked" in l][:8]
    return {"cmd": " ".join(cmd), "exit": rc, "seconds": round(time.time() - t0, 1), "tail": tail}

def main():
    sid, d = sys.argv[1], sys.argv[2]
    miri = "--miri" in sys.argv
    nodef = ["--no-default-features"] if "--nodef" in sys.argv else []
    if "--release" in sys.argv:
        nodef += ["--release"]
    if "--features" in sys.argv:
        nodef += ["--features", sys.argv[sys.argv.index("--features") + 1]]
    wt = f"/tmp/vs/{sid}"
    os.makedirs("/tmp/vs", exist_ok=True)
    subprocess.run(["git", "-C", "/repo", "worktree", "remove", "--force", wt], stdout=subprocess.DEVNULL, stderr=subprocess.DEVNULL)
    subprocess.run(["git", "-C", "/repo", "worktree", "add", "-q", "--detach", wt, "HEAD"], check=True)
    res = {"id": sid}
    try:
        os.makedirs(os.path.join(wt, "tests"), exist_ok=True)
        demo = os.path.join(wt, "tests", "seeded_demo.rs")
        tenv = {"CARGO_TARGET_DIR": os.path.join(wt, "target")}
        menv = dict(tenv)
        menv["MIRIFLAGS"] = "-Zmiri-disable-stacked-borrows"
        shutil.copy(os.path.join(d, "demo.rs"), demo)
        res["demo_unchanged_native"] = run(["cargo", "test", "--offline", "--test", "seeded_demo"] + nodef, wt, tenv)
        if miri:
            res["demo_unchanged_miri"] = run(["cargo", "+nightly", "miri", "test", "--offline", "--test", "seeded_demo"] + nodef, wt, menv)
        os.remove(demo)
        a = subprocess.run(["git", "apply", os.path.join(os.path.abspath(d), "patch.diff")], cwd=wt, stdout=subprocess.PIPE, stderr=subprocess.STDOUT, text=True)
        res["patch_applies"] = a.returncode == 0
        if a.returncode != 0:
            res["patch_error"] = a.stdout[-400:]
            return res
        res["suite_with_patch"] = run(["cargo", "test", "--offline", "--no-fail-fast"], wt, tenv)
        res["build_no_default_features"] = run(["cargo", "build", "--offline", "--no-default-features"], wt, tenv)
        res["build_unsize_arcswap"] = run(["cargo", "build", "--offline", "--features", "unsize,arc-swap"], wt, tenv)
        shutil.copy(os.path.join(d, "demo.rs"), demo)
        res["demo_patched_native"] = run(["cargo", "test", "--offline", "--test", "seeded_demo"] + nodef, wt, tenv)
        if miri:
            res["demo_patched_miri"] = run(["cargo", "+nightly", "miri", "test", "--offline", "--test", "seeded_demo"] + nodef, wt, menv)
    finally:
        subprocess.run(["git", "-C", "/repo", "worktree", "remove", "--force", wt], stdout=subprocess.DEVNULL, stderr=subprocess.DEVNULL)
        shutil.rmtree(wt, ignore_errors=True)
        with open(f"/tmp/vs/{sid}.json", "w") as f:
            json.dump(res, f, indent=1)
    return res

if __name__ == "__main__":
    r = main()
    print(json.dumps({k: (v if not isinstance(v, dict) else {"exit": v["exit"], "tail": v["tail"][:3]}) for k, v in r.items()}, indent=1))

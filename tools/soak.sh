#!/bin/bash
# Soak test: every thorough check once (results are not evidence; run from a snapshot via `vp run`).
cd "$(dirname "$0")/.."
for p in C01 C02 C03 C04 C05 C06 C07 C08 C09 C10 C11 C12 C15 C16 C17; do
  ./check $p thorough 2>&1 | tail -2
  echo "exit=$? $p"
done

#!/usr/bin/env python3
"""Run the checks against every seeded change under /verif/seeded (each applied to a scratch copy
of /repo, with a private copy of the harness) and record in meta.json which checks report it.
usage: seeded_sweep.py [name-substring ...] [--all-checks]"""
import json, os, subprocess, sys, shutil, time
HERE = os.path.dirname(os.path.dirname(os.path.abspath(__file__)))
SCR = "/tmp/trisim-seeded"
ALL = ["C01","C02","C03","C04","C05","C06","C07","C08","C09","C10","C11","C12","C15","C16","C17"]

def main():
    args = [a for a in sys.argv[1:] if not a.startswith("--")]
    allc = "--all-checks" in sys.argv
    sd = os.path.join(HERE, "seeded")
    rows = []
    for name in sorted(os.listdir(sd)):
        d = os.path.join(sd, name)
        if not os.path.isdir(d) or (args and not any(a in name for a in args)):
            continue
        meta = json.load(open(os.path.join(d, "meta.json")))
        pids = ALL if allc else meta.get("expected_checks") or [meta["breaks_property"]]
        work = os.path.join(SCR, name)
        shutil.rmtree(work, ignore_errors=True)
        os.makedirs(work)
        repo = os.path.join(work, "repo")
        subprocess.run(["rsync", "-a", "--exclude", "target", "--exclude", ".git", "/repo/", repo + "/"], check=True)
        r = subprocess.run(["patch", "-p1", "-s", "-i", os.path.join(d, "patch.diff")], cwd=repo)
        if r.returncode != 0:
            print(name, "PATCH FAILED")
            continue
        harness = os.path.join(work, "verif")
        subprocess.run(["rsync", "-a", "--exclude", "target", "--exclude", ".git", "--exclude", "evidence", "--exclude", "replays", "--exclude", "seeded", "--exclude", "shadow", HERE + "/", harness + "/"], check=True)
        env = dict(os.environ, VERIF_REPO=repo)
        det = {}
        for pid in pids:
            t0 = time.time()
            c = subprocess.run([os.path.join(harness, "check"), pid, "quick"], cwd=harness, env=env, stdout=subprocess.PIPE, stderr=subprocess.PIPE, text=True)
            viol = [l for l in c.stdout.splitlines() if l.startswith("VIOLATION")]
            detail = [l for l in c.stderr.splitlines() if l.startswith("violation of")]
            det[pid] = {"exit": c.returncode, "reported": bool(viol) and c.returncode == 1, "detail": (detail[0][:400] if detail else ""), "seconds": round(time.time() - t0, 1)}
            # keep the minimised replay of the responsible check next to the seeded change
            if viol and pid == meta["breaks_property"]:
                rp = viol[0].split("replay=")[1].strip()
                src = os.path.join(harness, rp)
                if os.path.exists(src):
                    shutil.copy(src, os.path.join(d, "found.replay"))
        meta["checks_run"] = [f"./check {p} quick (VERIF_REPO=<scratch copy with patch.diff applied>)" for p in pids]
        meta.setdefault("detected_by", {}).update(det)
        json.dump(meta, open(os.path.join(d, "meta.json"), "w"), indent=1)
        shutil.rmtree(work, ignore_errors=True)
        rows.append((name, {p: ("DETECTED" if v["reported"] else f"exit {v['exit']}") for p, v in det.items()}))
        print(rows[-1], flush=True)
    return 0

if __name__ == "__main__":
    sys.exit(main())

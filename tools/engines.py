"""Engines that are not program batches: C16 (counter overflow, child processes), C17 (serde
tape) and the allocation-failure children of C07."""
import json, os, subprocess, sys, time, signal, random
from concurrent.futures import ThreadPoolExecutor

ISIZE_MAX = (1 << 63) - 1
USIZE_MAX = (1 << 64) - 1

def _children(jobs, fn, nthreads):
    with ThreadPoolExecutor(max_workers=nthreads) as ex:
        return list(ex.map(fn, jobs))

# ------------------------------------------------------------------------------------------- C16

def c16_case(binp, entry, start, stderr_mode="devnull", unwinding=False):
    """stderr_mode "broken-pipe": the child's standard error is a pipe whose reader has gone away
    (`prog 2>&1 | head`), so any attempt to print there fails at the moment of the abort."""
    cmd = [binp, "overflow-child", "--entry", entry, "--start", str(start)] + (["--unwinding"] if unwinding else [])
    if stderr_mode == "broken-pipe":
        r, w = os.pipe()
        os.close(r)
        try:
            p = subprocess.run(cmd, stdout=subprocess.PIPE, stderr=w, text=True)
        finally:
            os.close(w)
    else:
        p = subprocess.run(cmd, stdout=subprocess.PIPE, stderr=subprocess.DEVNULL, text=True)
    return p.returncode, p.stdout

def c16_judge(start, rc, out):
    """Returns None if the outcome is as specified, else (class, detail)."""
    lines = out.strip().splitlines()
    if any(l.startswith("HARNESS-ERROR") for l in lines) or rc == 2:
        return ("harness", out)
    before = [l for l in lines if l.startswith("BEFORE-CLONE")]
    after = [l for l in lines if l.startswith("AFTER-CLONE")]
    caught = any(l == "CAUGHT" for l in lines)
    if not before:
        return ("harness", "no BEFORE-CLONE marker: " + out)
    seen = int(before[0].split("count=")[1])
    if seen != start:
        return ("count-mismatch", f"the accessor reports {seen} for a counter preset to {start}")
    aborted = rc == -signal.SIGABRT
    succeeded = rc == 0 and after and not caught
    def ok_success():
        a = after[0]
        cnt = int(a.split("count=")[1].split()[0])
        valid = "valid=true" in a
        if cnt != (start + 1) % (1 << 64):
            return ("overflow:count", f"clone at count {start} left the count at {cnt}, specified {start + 1}")
        if not valid:
            return ("overflow:invalid-handle", f"clone at count {start} returned a handle that does not refer to the same value")
        return None
    if start <= ISIZE_MAX - 1:
        if not succeeded:
            return ("overflow:spurious", f"clone at count {start} (below the limit) did not succeed: exit status {rc}, output {lines}")
        return ok_success()
    if start == ISIZE_MAX:
        # the documented soft limit: either a clean success or an abort is within the statement
        if succeeded:
            return ok_success()
        if aborted and not after and not caught:
            return None
        return ("overflow:bad-termination", f"clone at count {start}: exit status {rc}, output {lines}")
    # above the limit: the process must abort, not unwind, and produce no handle
    if caught:
        return ("overflow:catchable", f"clone at count {start} raised a catchable panic instead of aborting the process")
    if after:
        return ("overflow:wrapped", f"clone at count {start} (past half the address space) produced another handle: {after[0]}")
    if not aborted:
        return ("overflow:bad-termination", f"clone at count {start}: process ended with status {rc} instead of SIGABRT")
    return None

def c16(check, pid, tier, seed):
    t0 = time.time()
    bins = {"A": check.build("A"), "B": check.build("B")}
    starts = [1, 2, 1 << 31, 1 << 32, ISIZE_MAX - 1, ISIZE_MAX, ISIZE_MAX + 1, ISIZE_MAX + 2, USIZE_MAX - 1, USIZE_MAX]
    rnd = random.Random(seed)
    nextra = 24 if tier == "quick" else 400
    extras = []
    for _ in range(nextra):
        r = rnd.random()
        if r < 0.3:
            extras.append(rnd.randrange(1, ISIZE_MAX))
        elif r < 0.6:
            extras.append(rnd.randrange(ISIZE_MAX + 1, USIZE_MAX + 1))
        elif r < 0.8:
            extras.append(ISIZE_MAX - rnd.randrange(1, 1000))
        else:
            extras.append(ISIZE_MAX + rnd.randrange(1, 1000))
    jobs = []
    for cfg, b in bins.items():
        entries = subprocess.run([b, "overflow-entries"], stdout=subprocess.PIPE, text=True).stdout.split()
        for e in entries:
            for s in starts:
                jobs.append((cfg, b, e, s, "devnull"))
                if s >= ISIZE_MAX:
                    jobs.append((cfg, b, e, s, "broken-pipe"))
                if "@" not in e:
                    # the same clone made from a destructor while the thread is already unwinding
                    jobs.append((cfg, b, e, s, "unwinding"))
            for i, s in enumerate(extras):
                jobs.append((cfg, b, e, s, "broken-pipe" if i % 4 == 3 else "devnull"))
    def run(j):
        cfg, b, e, s, mode = j
        rc, out = c16_case(b, e, s, "devnull" if mode == "unwinding" else mode, unwinding=(mode == "unwinding"))
        return j, rc, out
    results = _children(jobs, run, check.NCPU)
    viols, aborted, succeeded, at_limit = [], 0, 0, {"success": 0, "abort": 0}
    per_entry = {}
    broken_pipe, unwinding = 0, 0
    for (cfg, b, e, s, mode), rc, out in results:
        v = c16_judge(s, rc, out)
        if mode == "broken-pipe":
            broken_pipe += 1
        if mode == "unwinding":
            unwinding += 1
        if rc == -signal.SIGABRT:
            aborted += 1
        elif rc == 0:
            succeeded += 1
        if s == ISIZE_MAX:
            at_limit["abort" if rc != 0 else "success"] += 1
        per_entry[f"{cfg}:{e}"] = per_entry.get(f"{cfg}:{e}", 0) + 1
        if v:
            if v[0] == "harness":
                check.harness_error(f"overflow child {e} start={s} cfg={cfg}: {v[1]}")
            viols.append((cfg, e, s, v, mode))
    wall = time.time() - t0
    reported = []
    os.makedirs(check.REPLAYS, exist_ok=True)
    known = check.load_known()
    known_hit = []
    for cfg, e, s, (cls, detail), mode in viols[:8]:
        path = os.path.join(check.REPLAYS, f"C16-{cfg}-{e}-{s}-{mode}.replay")
        with open(path, "w") as f:
            f.write(f"trisim-overflow v1\nentry {e}\nstart {s}\nstderr {mode}\n# cfg: {cfg}\n# class: {cls}\n# detail: {detail}\n")
        info = dict(cls=cls, detail=f"entry={e} start={s} cfg={cfg} stderr={mode}: {detail}", replay=path)
        k = check.match_known(known, pid, info)
        if k:
            print(f"KNOWN-FINDING: property={pid} {k['signature']}", flush=True)
            known_hit.append({"signature": k["signature"]})
            continue
        reported.append(info)
    samples = [{"config": cfg, "entry": e, "start": s, "stderr": mode, "exit_status": rc, "output": out.strip().splitlines()} for (cfg, b, e, s, mode), rc, out in results[:2] + results[5:8]]
    cov = {
        "evaluations": len(results),
        "distinct_nontrivial": len(set((cfg, e, s, mode) for (cfg, b, e, s, mode), rc, out in results if s >= ISIZE_MAX - 1000)),
        "rule": "one evaluation = one child process: a live handle of the entry point's kind, counter preset (time compression of forgotten clones), one clone, termination observed; "
                "distinct_nontrivial = distinct (config, entry point, start, stderr state) tuples with the start within 1000 of the limit or above it; the explicit start x entry x config matrix is enumerated completely, extras are seeded",
        "samples": samples,
        "exhaustive": False,
        "matrix": {"starts": [str(s) for s in starts], "seeded_extra_starts": nextra, "entry_points_per_config": {k: 0 for k in []}, "configs": list(bins.keys())},
        "children_per_entry": per_entry,
        "fault_kinds_fired": {"counter_preset": len(results), "stderr_is_a_broken_pipe_at_the_moment_of_the_clone": broken_pipe, "clone_made_from_a_destructor_while_the_thread_is_unwinding": unwinding, "process_aborted": aborted, "clone_succeeded": succeeded, "at_soft_limit": at_limit},
        "runs_per_hour": int(len(results) / wall * 3600),
        "simulated_time": {"unit": "forgotten clones skipped by presetting the counter", "steps": "up to 2^64-1 per case"},
        "components": check.REAL_VS_STUB,
        "known_findings_matched": known_hit,
    }
    ev = {"property_id": pid, "tier": tier, "seed": int(seed), "level": "fault_enumeration", "coverage": cov,
          "assumptions": ["the counter is the word triomphe itself operates on first when a count accessor is called (learnt through the pass-through shim)",
                          "exactly at isize::MAX both a clean success and an abort are accepted (documented soft limit)"],
          "wall_s": round(wall, 3), "violations": len(reported)}
    os.makedirs(check.EVID, exist_ok=True)
    with open(os.path.join(check.EVID, f"{pid}.json"), "w") as f:
        json.dump(ev, f, indent=1)
    for info in reported:
        check.log(f"violation of {pid}: {info['cls']}: {info['detail']}")
        print(f"VIOLATION property={pid} replay={os.path.relpath(info['replay'], check.HERE)}", flush=True)
    if not reported:
        check.log(f"{pid} {tier}: {len(results)} child processes, {aborted} aborted as specified, no violation ({wall:.1f}s)")
    return 1 if reported else 0

def c16_replay(check, path):
    text = open(path).read()
    kv = dict(l.split(None, 1) for l in text.splitlines() if l and not l.startswith("#") and " " in l)
    cfg = "A"
    for l in text.splitlines():
        if l.startswith("# cfg:"):
            cfg = l.split(":")[1].strip()
    b = check.build(cfg)
    mode = kv.get("stderr", "devnull")
    rc, out = c16_case(b, kv["entry"], int(kv["start"]), "devnull" if mode == "unwinding" else mode, unwinding=(mode == "unwinding"))
    sys.stdout.write(out)
    v = c16_judge(int(kv["start"]), rc, out)
    print(f"exit status {rc}; verdict: {v}")
    return v is not None

# ------------------------------------------------------------------------------------------- C07 allocation failure

def allocfail(check, tier, seed):
    """Returns (cases, violations[(cfg, ctor, n, cls, detail)], stats)."""
    bins = {"A": check._BIN.get("A") or check.build("A"), "B": check._BIN.get("B") or check.build("B")}
    jobs = []
    for cfg, b in bins.items():
        ctors = subprocess.run([b, "allocfail-ctors"], stdout=subprocess.PIPE, text=True).stdout.split()
        for c in ctors:
            for n in range(0, 6 if tier == "quick" else 12):
                jobs.append((cfg, b, c, n))
    def run(j):
        cfg, b, c, n = j
        p = subprocess.run([b, "allocfail-child", "--ctor", c, "--n", str(n)], stdout=subprocess.PIPE, stderr=subprocess.DEVNULL, text=True)
        return j, p.returncode, p.stdout
    res = _children(jobs, run, check.NCPU)
    viols, fired, clean = [], 0, 0
    for (cfg, b, c, n), rc, out in res:
        lines = out.strip().splitlines()
        if any(l.startswith("HARNESS-ERROR") for l in lines) or "ENTER" not in lines:
            check.harness_error(f"allocfail child {c} n={n}: {out}")
        returned = [l for l in lines if l.startswith("RETURNED")]
        if rc == -signal.SIGABRT and not returned:
            fired += 1
            continue
        if rc == 0 and returned and "fired=false" in returned[0]:
            clean += 1
            continue
        if rc == 0 and returned:
            viols.append((cfg, c, n, "allocfail:ignored", f"{c}: the {n}-th allocation inside the call failed but the call returned normally"))
        else:
            viols.append((cfg, c, n, "allocfail:bad-termination", f"{c}: allocation {n} failed and the process ended with status {rc} (specified: the allocation-error path, SIGABRT); output {lines}"))
    return res, viols, {"allocation_failures_injected_and_fired": fired, "armed_but_call_made_fewer_allocations": clean, "children": len(res)}

# ------------------------------------------------------------------------------------------- C17

def c17_tape(check, pid, tier, seed):
    """The serde tape engine. Returns (coverage dict, reported infos, evaluations)."""
    t0 = time.time()
    binp = check._BIN.get("A") or check.build("A")
    check._BIN["A"] = binp
    total = 48000 if tier == "quick" else 1600000
    nw = check.NCPU
    per = (total + nw - 1) // nw
    tmp = os.path.join(check.TMP, pid)
    import shutil
    shutil.rmtree(tmp, ignore_errors=True)
    os.makedirs(tmp, exist_ok=True)
    procs = []
    for w in range(nw):
        lo, hi = w * per, min(total, (w + 1) * per)
        if lo >= hi:
            continue
        outp = os.path.join(tmp, f"w{w}.out")
        f = open(outp, "w")
        p = subprocess.Popen([binp, "serde", "--seed", str(seed), "--from", str(lo), "--to", str(hi), "--out-dir", tmp, "--hashes", os.path.join(tmp, f"w{w}.hashes")], stdout=f, stderr=subprocess.DEVNULL)
        f.close()
        procs.append((p, outp, w))
    stats, viols = [], []
    hashes = set()
    for p, outp, w in procs:
        rc = p.wait()
        st, vcls, vdet, replay, last, herr, ctx = check.parse_worker_output(outp)
        hashes |= check.read_hashes(os.path.join(tmp, f"w{w}.hashes"))
        if herr or rc == 2:
            check.harness_error(f"serde worker: {herr or 'exit 2'}")
        if rc == 0 and st:
            stats.append(st)
        elif rc == 3 and vcls:
            viols.append((vcls, vdet, replay))
        else:
            viols.append((f"signal:{rc}", f"serde worker died with status {rc} at case {last}", None))
    wall = time.time() - t0
    os.makedirs(check.REPLAYS, exist_ok=True)
    reported, known_hit = [], []
    known = check.load_known()
    for i, (cls, det, replay) in enumerate(viols[:8]):
        path = os.path.join(check.REPLAYS, f"C17-{seed}-{i}.replay")
        if replay and os.path.exists(replay):
            shutil.copy(replay, path)
            # confirm in a fresh process
            c = subprocess.run([binp, "serde-replay", path], stdout=subprocess.PIPE, stderr=subprocess.DEVNULL, text=True)
            if c.returncode != 3:
                check.harness_error(f"serde violation {cls} did not reproduce from {path}")
        else:
            with open(path, "w") as f:
                f.write(f"# no replay file was produced\n# class: {cls}\n# detail: {det}\n")
        info = dict(cls=cls, detail=det, replay=path)
        k = check.match_known(known, pid, info)
        if k:
            print(f"KNOWN-FINDING: property={pid} {k['signature']}", flush=True)
            known_hit.append({"signature": k["signature"]})
            continue
        reported.append(info)
    tot = check.merge_stats(stats)
    cov = {
        "tape_evaluations": int(tot.get("runs", 0)),
        "tape_distinct_call_sequences": len(hashes),
        "tape_rule": "values are drawn from (u32, String, (u8,String), Vec<Piece>, Option<Piece>, Nested with hand-written impls, [Piece;9], (Nested,String,u64), (), a zero-sized Tag whose hand-written "
                     "deserialiser validates its input); one evaluation = one (value, direction, fault point k) with k = 0..calls+1 enumerated completely per value, plus per value one pass through a "
                     "format that is not self-describing (typed entry points only) and two inputs written for another type; distinct = distinct serializer call sequences (tapes) among the generated values, unioned over workers",
        "tape_samples": tot.get("samples", [])[:4] or ["none"],
        "tape_fault_kinds_fired": {"serializer_failure_at_kth_call": int(tot.get("ser_faults_fired", 0)), "deserializer_failure_at_kth_call": int(tot.get("de_faults_fired", 0)),
                              "serializer_fault_points": int(tot.get("ser_fault_points", 0)), "deserializer_fault_points": int(tot.get("de_fault_points", 0))},
        "tape_values": int(tot.get("values", 0)),
        "fresh_owner_blocks_checked_against_ledger": int(tot.get("fresh_blocks_checked", 0)),
        "serde_value_deserializer_cases": int(tot.get("value_deserializer_cases", 0)),
        "tape_values_by_type": tot.get("by_type"),
        "tape_inputs_written_for_another_type": {"cases": int(tot.get("wrong_input_cases", 0)), "rejected_by_the_value_deserialiser": int(tot.get("wrong_input_rejected", 0))},
        "tape_typed_entry_points_only_format_cases": int(tot.get("strict_format_cases", 0)),
        "tape_deserializer_entry_points_used": tot.get("entry_points"),
        "tape_unwinding_deserializer_callbacks": {"fault_points": int(tot.get("de_panic_points", 0)), "blocks_left_behind_tolerated": int(tot.get("unwind_blocks_left", 0)),
                                                  "rule": "a callback that panics instead of returning an error must propagate, destroy nothing twice and leave the partial value's pieces exactly as the value's own deserialiser does; "
                                                          "blocks left behind on unwinding are counted, not reported (C17 speaks of errors, C07 tolerates leaks on unwinding)"},
        "tape_components": {"real_code": ["triomphe's Serialize/Deserialize impls for Arc and UniqueArc", "serde (traits, std impls, de::value deserializers)"],
                       "stub_or_shim": ["Serializer and Deserializer (recording/replaying tape with failure injection)", "the global allocator (ledger)", "payload pieces (identity-tracked)"]},
        "configurations": "A only: serde is absent from the no-default-features build (compiled out, not counted as a pass)",
        "tape_known_findings_matched": known_hit,
        "tape_wall_s": round(wall, 3),
    }
    if int(tot.get("unwind_blocks_left", 0)) > 0:
        check.log(f"note: deserialisation through Arc/UniqueArc left {int(tot.get('unwind_blocks_left', 0))} block(s) behind when a deserializer callback unwound (tolerated: C17 speaks of errors, not panics)")
    shutil.rmtree(tmp, ignore_errors=True)
    for info in reported:
        info["props"] = {"C17"}
    return cov, reported, int(tot.get("runs", 0)), len(hashes)



def reentrant(check, pid, tier, seed):
    """Re-entrant user code (sim/src/reentrant.rs): Clone / PartialEq called by the library releases
    other owners of the same allocation, may panic, and the destructor of the value whose last
    owner the library thereby became may panic. Returns (coverage dict, reported infos, scenarios)."""
    import shutil
    t0 = time.time()
    cov_all, viols, stats = {}, [], []
    total = 160000 if tier == "quick" else 4800000
    nw = check.NCPU
    per = (total + nw - 1) // nw
    tmp = os.path.join(check.TMP, pid + "-reentrant")
    shutil.rmtree(tmp, ignore_errors=True)
    os.makedirs(tmp, exist_ok=True)
    hashes = set()
    bins = {}
    for cfg in ("A", "B"):
        binp = check._BIN.get(cfg) or check.build(cfg)
        check._BIN[cfg] = binp
        bins[cfg] = binp
        procs = []
        for w in range(nw):
            lo, hi = w * per, min(total, (w + 1) * per)
            if lo >= hi:
                continue
            outp = os.path.join(tmp, f"{cfg}{w}.out")
            f = open(outp, "w")
            p = subprocess.Popen([binp, "reentrant", "--seed", str(seed), "--from", str(lo), "--to", str(hi), "--out-dir", tmp, "--hashes", os.path.join(tmp, f"{cfg}{w}.hashes")], stdout=f, stderr=subprocess.DEVNULL)
            f.close()
            procs.append((p, outp, w))
        for p, outp, w in procs:
            rc = p.wait()
            st, vcls, vdet, replay, last, herr, ctx = check.parse_worker_output(outp)
            hashes |= check.read_hashes(os.path.join(tmp, f"{cfg}{w}.hashes"))
            if herr or rc == 2:
                check.harness_error(f"reentrant worker: {herr or 'exit 2'}")
            if rc == 0 and st:
                stats.append(st)
            elif rc == 3 and vcls:
                viols.append((vcls, vdet, replay, cfg))
            else:
                viols.append((f"signal:{rc}", f"reentrant worker (cfg {cfg}) died with status {rc}", None, cfg))
    os.makedirs(check.REPLAYS, exist_ok=True)
    reported, known_hit = [], []
    known = check.load_known()
    seen = set()
    for cls, det, replay, cfg in viols:
        if (cls, det) in seen or len(seen) >= 8:
            continue
        seen.add((cls, det))
        path = os.path.join(check.REPLAYS, f"{pid}-reentrant-{seed}-{len(seen)}.replay")
        if replay and os.path.exists(replay):
            with open(replay) as f:
                text = f.read()
            with open(path, "w") as f:
                f.write(text + f"# cfg: {cfg}\n")
            c = subprocess.run([bins[cfg], "reentrant-replay", path], stdout=subprocess.PIPE, stderr=subprocess.DEVNULL, text=True)
            if c.returncode != 3:
                check.harness_error(f"reentrant violation {cls} did not reproduce from {path}")
        else:
            with open(path, "w") as f:
                f.write(f"# no replay file was produced\n# class: {cls}\n# detail: {det}\n")
        info = dict(cls=cls, detail=det, replay=path, props={pid})
        k = check.match_known(known, pid, info)
        if k:
            print(f"KNOWN-FINDING: property={pid} {k['signature']}", flush=True)
            known_hit.append({"signature": k["signature"]})
            continue
        reported.append(info)
    tot = check.merge_stats(stats)
    ops = ["Arc::make_mut", "Arc::make_unique", "OffsetArc::make_mut", "Arc::unwrap_or_clone", "Arc::eq"]
    kinds = ["Arc", "OffsetArc", "ArcUnion(first)", "ArcUnion(second)", "raw pointer"]
    cov = {"reentrant_callbacks": {
        "scenarios": int(tot.get("runs", 0)),
        "distinct_scenario_shapes": len(hashes),
        "rule": "one scenario = (operation, 0-3 other owners of random kinds, which of them the payload's Clone/PartialEq releases while the library is inside the call, "
                "whether that callback then panics, whether the destructor of the original value panics); both build configurations; the space has about 2*10^4 shapes, so a quick run visits nearly all of it",
        "by_operation": dict(zip(ops, tot.get("by_op") or [])),
        "fault_kinds_fired": {"sibling_handles_released_inside_a_callback": int(tot.get("siblings_released_in_callback", 0)),
                              "by_released_handle_kind": dict(zip(kinds, tot.get("by_sibling_kind") or [])),
                              "callback_panics_after_releasing": int(tot.get("callback_panics", 0)),
                              "destructor_panics_of_the_value_whose_last_owner_the_call_became": int(tot.get("destructor_panics", 0))},
        "calls_that_became_last_owner_inside_the_call": int(tot.get("became_last_owner_inside_call", 0)),
        "outcomes": {"in_place": int(tot.get("in_place", 0)), "copied": int(tot.get("copied", 0)), "moved_out": int(tot.get("moved_out", 0))},
        "blocks_left_behind_after_unwinding_tolerated": int(tot.get("blocks_left_after_unwinding", 0)),
        "components": {"real_code": ["triomphe (Arc::make_mut, make_unique, unwrap_or_clone, PartialEq, OffsetArc::make_mut, ArcUnion, raw-pointer round trips, every Drop)"],
                       "stub_or_shim": ["payload type (identity table, re-entrant Clone/PartialEq, panicking destructor)", "the global allocator (ledger with quarantine)"]},
        "known_findings_matched": known_hit,
        "wall_s": round(time.time() - t0, 3)}}
    shutil.rmtree(tmp, ignore_errors=True)
    return cov, reported, int(tot.get("runs", 0))


# ------------------------------------------------------------------------------------------- Miri-scheduled scenarios

MIRI_CLASS = {"C02": ["c02"], "C03": ["c03"], "C04": ["c04"], "C08": ["c08"], "C09": ["c09"],
              # single-thread histories with injected faults (c00: leaks after an unwinding constructor are
              # legal, leak checker off) and the same histories fault-free under the leak checker (c01)
              "C01": ["c00", "c01"], "C05": ["c00", "c01"], "C06": ["c00", "c01"], "C07": ["c00", "c01"], "C10": ["c00", "c01"], "C11": ["c00", "c01"],
              "C12": ["c00", "c01"], "C15": ["c00", "c01"]}
MIRI_SEQ = ("c00", "c01")
# which properties each operation of a sequential history belongs to (life-story attribution)
MIRI_OP_PROPS = {"iter": {"C06"}, "faulty-iter": {"C06", "C07"}, "vec": {"C06"}, "slice": {"C06"}, "uninit": {"C15"}, "sized": {"C06"}, "thin": {"C10"}, "with_arc_mut": {"C10", "C07"},
                 "raw": {"C11"}, "offset": {"C11"}, "dyn": {"C11"}, "union": {"C12"}, "cow": {"C08"}, "uniq": {"C03"}, "unwrap": {"C09"}, "clone": set(), "header-length": {"C10"}}

def _miri_cmd(check, cls, seed, lo, hi, mseed, rate):
    env = dict(os.environ)
    env["CARGO_NET_OFFLINE"] = "true"
    env.pop("RUSTFLAGS", None)
    env["MIRIFLAGS"] = f"-Zmiri-disable-stacked-borrows -Zmiri-preemption-rate={rate} -Zmiri-seed={mseed}"
    if cls in MIRI_SEQ:
        env["MIRIFLAGS"] += " -Zmiri-symbolic-alignment-check" + (" -Zmiri-ignore-leaks" if cls == "c00" else "")
    env["VERIF_REPO"] = check.REPO
    cmd = ["cargo", "+nightly", "miri", "run", "--offline", "--quiet", "--target-dir", os.path.join(check.TARGET, "miri"), "--", cls, str(seed), str(lo), str(hi)]
    return cmd, env

def _miri_report_lines(err, n=40):
    """The part of Miri's stderr that is the report (not the compiler warnings before it)."""
    lines = err.strip().splitlines()
    for i, l in enumerate(lines):
        if "Undefined Behavior" in l or "memory leaked" in l or l.startswith("error"):
            return lines[i:i + n]
    return lines[-n:]

def miri_attribute_seq(check, stdout, stderr):
    """Sequential histories: the kind of report plus the operations the failing history went through."""
    props = set()
    text = stderr
    vr = [l for l in stdout.splitlines() if l.startswith("VIOLATION-RECORD")]
    if vr:
        cls = vr[0].split("\t")[1]
        props |= check.class_props(cls, False)
    elif "incorrect layout on deallocation" in text or "deallocating" in text and "which is" in text:
        props |= {"C05", "C01"}
    elif "uninitialized" in text:
        props |= {"C15", "C07", "C06", "C01"}
    elif "alignment" in text and "required" in text:
        props |= {"C05", "C11"}
    elif "out-of-bounds" in text or "dangling" in text or "has been freed" in text or "use-after-free" in text.lower():
        props |= {"C01", "C05"}
    elif "memory leaked" in text:
        props |= {"C01"}
    else:
        props |= {"C01", "C05"}
    # the failing history's own operations
    lines = stdout.splitlines()
    last = max([i for i, l in enumerate(lines) if l.startswith("BEGIN")] or [0])
    for l in lines[last:]:
        if l.startswith("OP\t"):
            props |= MIRI_OP_PROPS.get(l.split("\t")[1], set())
    return props

def miri_attribute(pid_of_class, stderr):
    """Which properties a Miri report is evidence against."""
    text = stderr
    destroy = ("deallocation" in text) or ("drop_slow" in text) or ("drop_in_place" in text)
    unwrap = ("try_unwrap" in text) or ("into_inner" in text) or ("unwrap_or_clone" in text)
    props = set()
    counting = ("strong_count" in text) or ("Arc::<" in text and "::count" in text) or ("::count" in text)
    if "Data race" in text and counting and not destroy:
        props |= {"C04"}
    elif "Data race" in text:
        if unwrap:
            props |= {"C09", "C03"}
        elif destroy:
            props |= {"C02", "C01"}
        else:
            props |= {pid_of_class, "C03"}
    elif "has been freed" in text or "dangling" in text or "use-after-free" in text.lower():
        props |= {"C01", "C02", pid_of_class}
    elif "memory leaked" in text or "leak" in text.lower():
        props |= {"C01", pid_of_class}
    else:
        props |= {pid_of_class}
    return props

def miri_engine(check, pid, tier, seed):
    """Generated 2-3 thread scenarios on real threads inside Miri: Miri's seeded scheduler and
    weak-memory emulation decide the execution, its data-race detector is the oracle.
    Returns (coverage dict, reported infos, evaluations)."""
    covs, reps, evs = {}, [], 0
    for cls in MIRI_CLASS[pid]:
        cov, reported, done = _miri_engine_class(check, pid, tier, seed, cls)
        key = "miri_scheduled" if cls not in MIRI_SEQ else f"miri_sequential_{cls}"
        covs[key] = cov.get("miri_scheduled", cov)
        reps += reported
        evs += done
    return covs, reps[:4], evs

def _miri_engine_class(check, pid, tier, seed, cls):
    t0 = time.time()
    if cls in MIRI_SEQ:
        # each property draws its own histories
        seed = seed * 1000 + int(pid[1:])
    r = subprocess.run([sys.executable, os.path.join(check.HERE, "tools", "gen_shadow.py")], env=dict(os.environ, VERIF_REPO=check.REPO))
    lock = os.path.join(check.HERE, "mirisim", "Cargo.lock")
    if not os.path.exists(lock):
        import shutil
        shutil.copy(os.path.join(check.HERE, "sim", "Cargo.lock"), lock)
    mdir = os.path.join(check.HERE, "mirisim")
    # warm-up / availability probe (also builds the Miri sysroot and the crate once)
    cmd, env = _miri_cmd(check, cls, seed, 0, 1, 0, 0.1)
    try:
        p = subprocess.run(cmd, cwd=mdir, env=env, stdout=subprocess.PIPE, stderr=subprocess.PIPE, text=True, timeout=1500)
    except Exception as ex:
        return {"miri_scheduled": {"skipped": f"cargo miri could not be started: {ex}"}}, [], 0
    if p.returncode != 0 and "RUN-OK" not in p.stdout and "Undefined Behavior" not in p.stderr and "VIOLATION-RECORD" not in p.stdout:
        return {"miri_scheduled": {"skipped": "cargo +nightly miri is not usable here: " + (p.stderr.strip().splitlines() or ["?"])[-1][:200]}}, [], 0
    nw = check.NCPU
    # Miri's race detector keeps one vector-clock entry per thread ever created, so a process
    # slows down quadratically with the number of scenarios it has run: many short processes.
    chunk = 150
    total = max(1, int((150 if tier == "quick" else 2400) * check.SCALE)) * nw
    rates = [0.05, 0.1, 0.25, 0.5]
    chunks = [(lo, min(total, lo + chunk)) for lo in range(0, total, chunk)]
    done, reported, ub_reports = 0, [], 0
    os.makedirs(check.REPLAYS, exist_ok=True)

    def run_chunk(arg):
        w, (lo, hi) = arg
        mseed = (seed * 31 + w * 7919) % 1000003
        rate = rates[w % len(rates)]
        cmd, env = _miri_cmd(check, cls, seed, lo, hi, mseed, rate)
        try:
            pr = subprocess.run(cmd, cwd=mdir, env=env, stdout=subprocess.PIPE, stderr=subprocess.PIPE, text=True, timeout=3600)
            return (w, lo, hi, mseed, rate, pr.returncode, pr.stdout, pr.stderr)
        except subprocess.TimeoutExpired:
            return (w, lo, hi, mseed, rate, 124, "", "TIMEOUT")

    results = _children(list(enumerate(chunks)), run_chunk, nw)
    for w, lo, hi, mseed, rate, rc, out, err in results:
        begins = [l for l in out.splitlines() if l.startswith("BEGIN")]
        last = int(begins[-1].split("\t")[2]) if begins else lo
        if rc == 0 and "RUN-OK" in out:
            done += hi - lo
            continue
        if rc == 124:
            check.harness_error(f"miri chunk {w} timed out")
        done += max(0, last - lo)
        ub = [l for l in err.splitlines() if "Undefined Behavior" in l or "memory leaked" in l]
        vr = [l for l in out.splitlines() if l.startswith("VIOLATION-RECORD")]
        if not ub and not vr:
            tail = " | ".join(err.strip().splitlines()[-3:])
            check.harness_error(f"miri chunk {w} ended with status {rc} without a report: {tail[:300]}")
        ub_reports += 1
        cls_name = "miri:" + (ub[0].split("Undefined Behavior:")[1].strip()[:80] if ub and "Undefined Behavior:" in ub[0] else (vr[0].split("\t")[1] if vr else "report"))
        detail = (ub[0].strip() if ub else vr[0])[:300] + f" (scenario class {cls}, scenario index {last}, miri seed {mseed}, pre-emption rate {rate})"
        path = os.path.join(check.REPLAYS, f"{pid}-miri-{cls}-{seed}-{last}-{mseed}.replay")
        with open(path, "w") as f:
            f.write(f"trisim-miri v1\nclass {cls}\nseed {seed}\nfrom {lo}\nto {last + 1}\nmiri-seed {mseed}\npreemption {rate}\n# class: {cls_name}\n# detail: {detail}\n")
            f.write("# " + "\n# ".join(_miri_report_lines(err)) + "\n")
        props = miri_attribute_seq(check, out, err) if cls in MIRI_SEQ else miri_attribute(pid, err)
        if cls in MIRI_SEQ:
            # histories are independent: the replay is the failing history alone (for a leak, which
            # Miri reports at process end, the first history of the chunk that leaks on its own)
            one = last
            if "memory leaked" in err and not vr:
                def leaks(i):
                    c2, e2 = _miri_cmd(check, cls, seed, i, i + 1, mseed, rate)
                    p2 = subprocess.run(c2, cwd=mdir, env=e2, stdout=subprocess.PIPE, stderr=subprocess.PIPE, text=True)
                    return i, ("memory leaked" in p2.stderr), p2.stdout
                hits = [(i, o) for i, bad, o in _children(list(range(lo, hi)), leaks, nw) if bad]
                if hits:
                    one = hits[0][0]
                    props = miri_attribute_seq(check, hits[0][1], err)
            with open(path, "w") as f:
                f.write(f"trisim-miri v1\nclass {cls}\nseed {seed}\nfrom {one}\nto {one + 1}\nmiri-seed {mseed}\npreemption {rate}\n# class: {cls_name}\n# detail: {detail}\n")
                f.write("# " + "\n# ".join(_miri_report_lines(err)) + "\n")
        info = dict(cls=cls_name, detail=detail, replay=path, props=props)
        if pid in props:
            reported.append(info)
        else:
            check.log(f"note: the Miri-scheduled scenarios of {pid} hit a report attributed to {sorted(props)}: {detail}")
    per = chunk
    wall = time.time() - t0
    if cls in MIRI_SEQ:
        fk = {}
        for w, lo, hi, mseed, rate, rc, out, err in results:
            for l in out.splitlines():
                if l.startswith("STATS\t"):
                    for kv in l.split("\t")[1:]:
                        k, v = kv.split("=")
                        fk[k] = fk.get(k, 0) + int(v)
        cov = {"miri_scheduled": {
            "what": ("generated single-thread histories (36 header x element shape pairs incl. zero-sized, over-aligned and destructor-bearing ones; every constructor family; thin/raw/offset/dyn/union "
                     "conversions, clones, copy-on-write, unwraps; seeded release order) run inside Miri, which judges every byte the library itself touches: uninitialised or freed reads, out-of-bounds "
                     "and misaligned accesses, a release with the wrong layout" + ("; faults armed: iterators that panic at their k-th call or misreport their length, callbacks that panic after replacing the Arc "
                     "(the library documents that an unwinding constructor leaks its block, so the leak checker is off)" if cls == "c00" else "; fault-free, so Miri's leak checker is on as well")),
            "history_class": cls, "histories_executed": done, "concurrent_processes": nw, "histories_per_process": per, "processes": len(chunks),
            "fault_kinds_fired": fk, "reports": ub_reports, "wall_s": round(wall, 1),
            "flags": "-Zmiri-disable-stacked-borrows -Zmiri-symbolic-alignment-check" + (" -Zmiri-ignore-leaks" if cls == "c00" else "")}}
        return cov, reported[:4], done
    cov = {"miri_scheduled": {
        "what": "generated 2-3 thread clone/read/convert/drop (+ class-specific) scenarios on real threads inside Miri; Miri's seeded scheduler and weak-memory emulation decide the execution, its data-race / use-after-free / leak detection is the oracle; it also sees the library's own non-atomic accesses, which the baton simulator cannot",
        "scenario_class": cls, "scenarios_executed": done, "concurrent_processes": nw, "scenarios_per_process": per, "processes": len(chunks),
        "miri_seeds": "(VERIF_SEED*31 + chunk*7919) mod 1000003", "preemption_rates": rates, "reports": ub_reports, "wall_s": round(wall, 1),
        "flags": "-Zmiri-disable-stacked-borrows (the aliasing model is outside the properties)"}}
    return cov, reported[:4], done

def miri_replay(check, path):
    kv = dict(l.split(None, 1) for l in open(path).read().splitlines() if l and not l.startswith("#") and " " in l)
    cmd, env = _miri_cmd(check, kv["class"], int(kv["seed"]), int(kv["from"]), int(kv["to"]), int(kv["miri-seed"]), kv["preemption"])
    subprocess.run([sys.executable, os.path.join(check.HERE, "tools", "gen_shadow.py")], env=dict(os.environ, VERIF_REPO=check.REPO))
    p = subprocess.run(cmd, cwd=os.path.join(check.HERE, "mirisim"), env=env, stdout=subprocess.PIPE, stderr=subprocess.PIPE, text=True)
    sys.stdout.write(p.stdout[-2000:])
    sys.stdout.write("\n".join(_miri_report_lines(p.stderr, 30)) + "\n")
    return not (p.returncode == 0 and "RUN-OK" in p.stdout)

#!/usr/bin/env python3
"""Print the markdown table of seeded changes (seeded/*/meta.json) for DESIGN.md section 13."""
import json, os, re
HERE = os.path.dirname(os.path.dirname(os.path.abspath(__file__)))
sd = os.path.join(HERE, "seeded")
print("| id | breaks | what was changed (directory name) | needs | confirmed | reported by | first report |")
print("|---|---|---|---|---|---|---|")
for n in sorted(os.listdir(sd)):
    m = json.load(open(os.path.join(sd, n, "meta.json")))
    det = [(k, v) for k, v in m.get("detected_by", {}).items() if v.get("reported")]
    cls = ""
    if det:
        d = det[0][1].get("detail", "")
        mm = re.search(r"class ([^:]+(?::[^: ]+)?)", d)
        cls = mm.group(1) if mm else ""
    needs = m["needs_to_manifest"]
    needs = needs if len(needs) < 150 else needs[:147] + "..."
    print(f"| {n[:3]} | {m['breaks_property']} | {n[8:]} | {needs} | {'yes' if m.get('confirmed') else 'NO'} | {', '.join(k for k, _ in det) or ('not claimed (outside the statement)' if m.get('outside_the_statement') else 'MISSED')} | {cls} |")

"""Self-tests of the machinery (not property checks):
  determinism: many seeds x 2 executions x 2 worker partitions, trace hashes must agree
  mutants: every patch in mutants/ must (a) apply, (b) still pass the repository's own tests with
           the guard off, (c) be reported by the responsible check(s) within the quick budget."""
import os, subprocess, sys, shutil, time, json

EXPECT = {
    "m01_dec_relaxed": ["C02"],
    "m02_no_acquire_load": ["C02"],
    "m03_count_relaxed": ["C03"],
    "m04_union_clone_second_leaks_count": ["C04", "C12"],
    "m05_offset_with_arc_no_manuallydrop": ["C04", "C01"],
    "m06_no_pad_to_align": ["C05"],
    "m07_offset_of_data_usize": ["C11"],
    "m08_with_arc_mut_no_guard": ["C10", "C07"],
    "m09_offset_make_mut_no_manuallydrop": ["C07"],
    "m10_make_mut_always_inplace": ["C08"],
    "m11_into_inner_double_drop": ["C09"],
    "m12_into_thin_no_assert": ["C10"],
    "m13_union_drop_no_strip": ["C12"],
    "m14a_overflow_no_check": ["C16"],
    "m14b_overflow_panic": ["C16"],
    "m15_from_header_and_iter_trust_iter": ["C07"],
    "m16_from_vec_leaks_big_source": ["C06"],
    "m17_new_uninit_wrong_layout": ["C05"],
    "m18_unique_write_assigns": ["C15"],
    "m19a_serde_de_leaks_count": ["C17"],
    "m19b_serde_ser_newtype": ["C17"],
    "m20_alloc_no_null_check": ["C07"],
    "m21_thin_clone_releases_when_len5": ["C01", "C10"],
    "m22_is_unique_le2_for_40_byte_payloads": ["C03"],
    "m23_heap_ptr_data": ["C11"],
    "m24_union_is_first_when_equal_types": ["C12"],
    "m25_drop_fast_path_acquire_before_sub": ["C02"],
    # need the re-entrant user code engine (a sibling owner released inside Clone + a panicking destructor)
    "m26_offset_make_mut_write_back_on_return_only": ["C07", "C01"],
    "m27_make_mut_detach_drop_inner_then_write": ["C08", "C09"],
}

SCRATCH = "/tmp/trisim-selftest"

def determinism(check):
    binp = check.build("A")
    out = os.path.join(SCRATCH, "det")
    shutil.rmtree(out, ignore_errors=True)
    os.makedirs(out)
    seed = 424242
    n = int(os.environ.get("SELFTEST_RUNS", "24000"))
    bad = 0
    for prof in ["C01", "C02", "C03", "C08", "C09", "C10", "C07", "C15", "C17"]:
        logs = []
        for part, nw in (("a", 16), ("b", 5), ("c", 16)):
            per = (n + nw - 1) // nw
            procs = []
            for w in range(nw):
                lo, hi = w * per, min(n, (w + 1) * per)
                if lo >= hi:
                    continue
                lp = os.path.join(out, f"{prof}-{part}-{w}.log")
                p = subprocess.Popen([binp, "run", "--profile", prof, "--seed", str(seed), "--from", str(lo), "--to", str(hi), "--trace-log", lp], stdout=subprocess.DEVNULL, stderr=subprocess.DEVNULL)
                procs.append((p, lp))
            merged = {}
            for p, lp in procs:
                rc = p.wait()
                if rc != 0:
                    print(f"determinism: worker exit {rc} for profile {prof}")
                    return 2
                for line in open(lp):
                    i, h, c, o = line.split("\t")
                    merged[int(i)] = (h, c, o.strip())
            logs.append(merged)
        a, b, c = logs
        diff = [i for i in a if a[i] != b.get(i) or a[i] != c.get(i)]
        print(f"determinism {prof}: {len(a)} seeds x 3 executions (16, 5 and 16 worker processes): {len(diff)} divergent")
        bad += len(diff)
        if diff:
            print("  first divergent indices:", diff[:10])
    # the re-entrant user code engine: per-scenario digests must not depend on the worker split
    logs = []
    for part, nw in (("a", 16), ("b", 5), ("c", 16)):
        per = (n * 4 + nw - 1) // nw
        procs = []
        for w in range(nw):
            lo, hi = w * per, min(n * 4, (w + 1) * per)
            if lo >= hi:
                continue
            lp = os.path.join(out, f"re-{part}-{w}.log")
            p = subprocess.Popen([binp, "reentrant", "--seed", str(seed), "--from", str(lo), "--to", str(hi), "--trace-log", lp], stdout=subprocess.DEVNULL, stderr=subprocess.DEVNULL)
            procs.append((p, lp))
        merged = {}
        for p, lp in procs:
            rc = p.wait()
            if rc != 0:
                print(f"determinism: worker exit {rc} for the reentrant engine")
                return 2
            for line in open(lp):
                i, h = line.split("\t")
                merged[int(i)] = h.strip()
        logs.append(merged)
    a, b, c = logs
    diff = [i for i in a if a[i] != b.get(i) or a[i] != c.get(i)]
    print(f"determinism reentrant: {len(a)} scenarios x 3 executions (16, 5 and 16 worker processes): {len(diff)} divergent")
    bad += len(diff)
    shutil.rmtree(out, ignore_errors=True)
    return 0 if bad == 0 else 2

def try_patch(check, patch, pids):
    """Apply one patch to a scratch copy of the repository and run the given checks on it."""
    name = "try-" + os.path.basename(os.path.dirname(os.path.abspath(patch))) + "-" + os.path.basename(patch).replace(".", "-")
    EXPECT[name] = pids
    mdir = os.path.join(SCRATCH, "patches")
    os.makedirs(mdir, exist_ok=True)
    shutil.copy(patch, os.path.join(mdir, name + ".diff"))
    return mutants(check, [name], mdir=mdir, keep_replays=True)

def mutants(check, names, mdir=None, keep_replays=False):
    here = check.HERE
    mdir = mdir or os.path.join(here, "mutants")
    all_names = sorted(f[:-5] for f in os.listdir(mdir) if f.endswith(".diff"))
    names = [n for n in all_names if not names or any(x in n for x in names)]
    results = []
    for name in names:
        work = os.path.join(SCRATCH, name)
        shutil.rmtree(work, ignore_errors=True)
        os.makedirs(work)
        repo = os.path.join(work, "repo")
        subprocess.run(["rsync", "-a", "--exclude", "target", "--exclude", ".git", check.REPO + "/", repo + "/"], check=True)
        r = subprocess.run(["patch", "-p1", "-s", "-i", os.path.join(mdir, name + ".diff")], cwd=repo, stdout=subprocess.PIPE, stderr=subprocess.STDOUT, text=True)
        if r.returncode != 0:
            results.append((name, "PATCH-FAILED", r.stdout[-300:]))
            shutil.rmtree(work, ignore_errors=True)
            continue
        env = dict(os.environ)
        env["CARGO_NET_OFFLINE"] = "true"
        env["CARGO_TARGET_DIR"] = os.path.join(work, "t-base")
        t = subprocess.run(["cargo", "test", "--offline", "--no-fail-fast"], cwd=repo, env=env, stdout=subprocess.PIPE, stderr=subprocess.STDOUT, text=True)
        tests_ok = t.returncode == 0
        shutil.rmtree(os.path.join(work, "t-base"), ignore_errors=True)
        if not tests_ok:
            tail = [l for l in t.stdout.splitlines() if "FAILED" in l or "error" in l][:4]
            results.append((name, "TESTS-FAIL (not a tests-passing mutant)", " | ".join(tail)))
            shutil.rmtree(work, ignore_errors=True)
            continue
        # run a private copy of the harness so that nothing (shadow manifest, build output,
        # evidence, replays) of the real /verif is touched while /repo is swapped for the mutant
        harness = os.path.join(work, "verif")
        subprocess.run(["rsync", "-a", "--exclude", "target", "--exclude", ".git", "--exclude", "evidence", "--exclude", "replays", "--exclude", "seeded", "--exclude", "shadow", here + "/", harness + "/"], check=True)
        env2 = dict(os.environ)
        for k in ("VERIF_TARGET", "VERIF_EVID", "VERIF_REPLAYS"):
            env2.pop(k, None)
        env2.update(VERIF_REPO=repo)
        verdicts = []
        for pid in EXPECT.get(name, []):
            t0 = time.time()
            c = subprocess.run([os.path.join(harness, "check"), pid, "quick"], cwd=harness, env=env2, stdout=subprocess.PIPE, stderr=subprocess.PIPE, text=True)
            viol = [l for l in c.stdout.splitlines() if l.startswith("VIOLATION")]
            detail = [l for l in c.stderr.splitlines() if l.startswith("violation of")]
            verdicts.append((pid, c.returncode, viol[:1], detail[:1], round(time.time() - t0, 1)))
        ok = all(v[1] == 1 and v[2] for v in verdicts)
        results.append((name, "DETECTED" if ok else "MISSED", verdicts))
        if keep_replays:
            dst = os.path.join(SCRATCH, "kept", name)
            shutil.rmtree(dst, ignore_errors=True)
            if os.path.isdir(os.path.join(harness, "replays")):
                shutil.copytree(os.path.join(harness, "replays"), dst)
            if os.path.isdir(os.path.join(harness, "evidence")):
                shutil.copytree(os.path.join(harness, "evidence"), os.path.join(dst, "evidence"))
        shutil.rmtree(work, ignore_errors=True)
        print(name, results[-1][1], results[-1][2], flush=True)
    print("\n==== mutant sweep ====")
    missed = 0
    for r in results:
        print(f"{r[0]:45s} {r[1]}")
        if r[1] != "DETECTED":
            missed += 1
            print("     ", r[2])
    return 0 if missed == 0 else 1


ALL_CHECKS = ["C01", "C02", "C03", "C04", "C05", "C06", "C07", "C08", "C09", "C10", "C11", "C12", "C15", "C16", "C17"]

def refactors(check, names):
    """Benign refactors (refactors/*.diff) keep every property: no check may raise an alarm."""
    here = check.HERE
    rdir = os.path.join(here, "refactors")
    all_names = sorted(f[:-5] for f in os.listdir(rdir) if f.endswith(".diff"))
    names = [n for n in all_names if not names or any(x in n for x in names)]
    bad = 0
    for name in names:
        work = os.path.join(SCRATCH, name)
        shutil.rmtree(work, ignore_errors=True)
        os.makedirs(work)
        repo = os.path.join(work, "repo")
        subprocess.run(["rsync", "-a", "--exclude", "target", "--exclude", ".git", check.REPO + "/", repo + "/"], check=True)
        r = subprocess.run(["patch", "-p1", "-s", "-i", os.path.join(rdir, name + ".diff")], cwd=repo, stdout=subprocess.PIPE, stderr=subprocess.STDOUT, text=True)
        if r.returncode != 0:
            print(name, "PATCH-FAILED")
            bad += 1
            continue
        harness = os.path.join(work, "verif")
        subprocess.run(["rsync", "-a", "--exclude", "target", "--exclude", ".git", "--exclude", "evidence", "--exclude", "replays", "--exclude", "seeded", "--exclude", "shadow", here + "/", harness + "/"], check=True)
        env = dict(os.environ, VERIF_REPO=repo, VERIF_SCALE=os.environ.get("VERIF_SCALE", "0.15"))
        out = []
        only = os.environ.get("VERIF_REFAC_CHECKS")
        for pid in (only.split(",") if only else ALL_CHECKS):
            c = subprocess.run([os.path.join(harness, "check"), pid, "quick"], cwd=harness, env=env, stdout=subprocess.PIPE, stderr=subprocess.PIPE, text=True)
            if c.returncode != 0:
                detail = [l for l in (c.stdout + c.stderr).splitlines() if l.startswith("violation of") or l.startswith("VIOLATION") or l.startswith("HARNESS")]
                out.append((pid, c.returncode, detail[:2]))
        print(f"{name:50s} {('QUIET (' + (only or 'all 15 checks') + ' exit 0)') if not out else 'ALARM ' + str(out)}", flush=True)
        bad += len(out)
        shutil.rmtree(work, ignore_errors=True)
    return 0 if bad == 0 else 1
